"""Partial evaluator for small pure expressions (predicates over a token,
affine column arithmetic, validator tests).  It evaluates AST nodes over an
explicit environment with a closed set of operations; nothing from the
repository is imported or called."""
from __future__ import annotations

import ast
import operator

from .model import AnalysisError, norm


class Unsupported(AnalysisError):
    pass


_BIN = {ast.Add: operator.add, ast.Sub: operator.sub, ast.Mult: operator.mul, ast.FloorDiv: operator.floordiv,
        ast.Mod: operator.mod, ast.BitOr: operator.or_, ast.BitAnd: operator.and_}
_CMP = {ast.Eq: operator.eq, ast.NotEq: operator.ne, ast.Lt: operator.lt, ast.LtE: operator.le, ast.Gt: operator.gt,
        ast.GtE: operator.ge, ast.In: lambda a, b: _member(a, b), ast.NotIn: lambda a, b: not _member(a, b),
        ast.Is: operator.is_, ast.IsNot: operator.is_not}
_STR_METHODS = {"startswith", "endswith", "split", "rsplit", "partition", "rpartition", "upper", "lower", "strip", "lstrip",
                "rstrip", "isdigit", "isalpha", "isupper", "find", "index", "count", "replace", "removeprefix", "removesuffix",
                "casefold", "isnumeric", "join", "splitlines", "zfill", "title", "ljust", "rjust", "center", "format", "capitalize", "isspace", "isalnum", "expandtabs"}
_LIST_METHODS = {"index", "count", "copy"}
_BUILTINS = {"len": len, "int": int, "str": str, "float": float, "abs": abs, "min": min, "max": max, "range": range,
             "bool": bool, "list": list, "tuple": tuple, "set": set, "sorted": sorted, "any": any, "all": all, "sum": sum,
             "enumerate": enumerate, "zip": zip, "reversed": reversed, "ord": ord, "chr": chr, "repr": repr, "dict": dict,
             "frozenset": frozenset, "round": round, "deque": __import__("collections").deque, "count": __import__("itertools").count, "Counter": __import__("collections").Counter, "defaultdict": __import__("collections").defaultdict,
             "divmod": divmod, "isinstance": isinstance, "map": map, "filter": filter, "iter": iter, "next": next,
             # pure helpers of operator / itertools / functools that code is commonly modernised to
             "itemgetter": __import__("operator").itemgetter, "attrgetter": __import__("operator").attrgetter,
             "groupby": __import__("itertools").groupby, "chain": __import__("itertools").chain, "pairwise": __import__("itertools").pairwise,
             "accumulate": __import__("itertools").accumulate, "islice": __import__("itertools").islice, "dropwhile": __import__("itertools").dropwhile,
             "takewhile": __import__("itertools").takewhile, "zip_longest": __import__("itertools").zip_longest, "product": __import__("itertools").product,
             "starmap": __import__("itertools").starmap, "reduce": __import__("functools").reduce, "repeat": __import__("itertools").repeat}


def _hash_ordered(v) -> bool:
    """a set whose iteration order depends on the hash seed (two or more members, some not numbers)"""
    return isinstance(v, (set, frozenset)) and len(v) >= 2 and any(not isinstance(x, (int, float)) or isinstance(x, bool) for x in v)


def _member(a, b):
    for x in (b, a):
        if isinstance(x, _Unknown):
            _raise_unknown(x)
    if isinstance(b, dict):
        return a in b
    if isinstance(b, str):
        return a in b
    for x in b:
        if isinstance(x, _Unknown):
            _raise_unknown(x)
        if x == a:
            return True
    return False


def ceval(e: ast.AST, env: dict, stubs: dict | None = None):
    """stubs: normalised source text -> value (e.g. 'len(self._atoms)' -> 3)"""
    stubs = stubs or {}
    key = norm(e)
    if key in stubs:
        return stubs[key]
    if isinstance(e, ast.Constant):
        return e.value
    if isinstance(e, ast.Name):
        if e.id in env:
            return env[e.id]
        if e.id in ("True", "False", "None"):
            return {"True": True, "False": False, "None": None}[e.id]
        if "__pe__" in stubs and e.id in stubs["__pe__"][0].calls:
            return _Partial(e.id, [], stubs["__pe__"][0])          # a followed function used as a value
        if "__pe__" in stubs and e.id in _BUILTINS:
            return _BUILTINS[e.id]                                  # a builtin used as a value (map(sorted, ...))
        raise Unsupported(f"partial evaluation: free name {e.id}")
    if isinstance(e, ast.Attribute) and isinstance(e.ctx, ast.Load):
        # a field of a record made from one of the repository's NamedTuple classes (see PathEval.record_classes)
        b = ceval(e.value, env, stubs)
        if isinstance(b, _Unknown):
            return b
        if isinstance(b, tuple) and hasattr(b, "_fields") and e.attr in b._fields:
            return getattr(b, e.attr)
        if type(b).__name__ == "ConstInst" and e.attr in b.fields:      # a record made by the constant evaluator (model.ConstInst)
            return b.fields[e.attr]
        if isinstance(b, ModuleValues):
            if e.attr in b.values:
                return b.values[e.attr]
            raise Unsupported(f"partial evaluation: `{norm(e)}` is not a constant of that module")
        if e.attr in getattr(type(b), "__pe_attrs__", ()):
            return getattr(b, e.attr)
        if isinstance(b, tuple) and hasattr(b, "_fields") and "__pe__" in stubs and f"{type(b).__name__}.{e.attr}" in stubs["__pe__"][0].calls:
            pe, st_ = stubs["__pe__"]
            key_ = f"{type(b).__name__}.{e.attr}"
            if any(norm(d) == "property" for d in pe.calls[key_][0].decorator_list):
                return pe.call(key_, [b], st_)
            return _Partial(key_, [b], pe)              # a bound method of a record
        if isinstance(b, Instance) and "__pe__" in stubs:
            pe, st_ = stubs["__pe__"]
            if e.attr in b.attrs:
                return b.attrs[e.attr]
            info = pe.instance_classes.get(b.cls, {})
            key_ = f"{b.cls}.{e.attr}"
            if key_ in pe.calls:
                if any(norm(d) == "property" or norm(d).endswith("cached_property") for d in pe.calls[key_][0].decorator_list):
                    return pe.call(key_, [b], st_)
                return _Partial(key_, [b], pe)              # a bound method
            if e.attr in info.get("class_attrs", {}):
                return info["class_attrs"][e.attr]
            raise Unsupported(f"partial evaluation: `{norm(e)}`: the object has no `{e.attr}` yet")
        if type(b).__name__ == "SampleGraph" and e.attr == "nodes":
            return b.nodes
        if type(b).__name__ == "SampleGraph" and e.attr == "edges":
            return b.edges()
        raise Unsupported(f"partial evaluation: attribute `{norm(e)}`")
    if isinstance(e, ast.BoolOp):
        if isinstance(e.op, ast.And):
            v = True
            for x in e.values:
                v = ceval(x, env, stubs)
                if not v:
                    return v
            return v
        v = False
        for x in e.values:
            v = ceval(x, env, stubs)
            if v:
                return v
        return v
    if isinstance(e, ast.UnaryOp):
        v = ceval(e.operand, env, stubs)
        if isinstance(e.op, ast.Not):
            return not v
        if isinstance(e.op, ast.USub):
            return -v
        if isinstance(e.op, ast.UAdd):
            return +v
    if isinstance(e, ast.BinOp) and type(e.op) in _BIN:
        return _BIN[type(e.op)](ceval(e.left, env, stubs), ceval(e.right, env, stubs))
    if isinstance(e, ast.Compare):
        left = ceval(e.left, env, stubs)
        for op, c in zip(e.ops, e.comparators):
            right = ceval(c, env, stubs)
            if not _CMP[type(op)](left, right):
                return False
            left = right
        return True
    if isinstance(e, ast.IfExp):
        return ceval(e.body, env, stubs) if ceval(e.test, env, stubs) else ceval(e.orelse, env, stubs)
    if isinstance(e, ast.NamedExpr):
        v = ceval(e.value, env, stubs)
        env[e.target.id] = v
        return v
    if isinstance(e, (ast.Tuple, ast.List, ast.Set)):
        vals = []
        for x in e.elts:
            if isinstance(x, ast.Starred):
                sv = ceval(x.value, env, stubs)
                if isinstance(sv, _Unknown):
                    return sv
                vals.extend(list(sv))
            else:
                vals.append(ceval(x, env, stubs))
        return tuple(vals) if isinstance(e, ast.Tuple) else (set(vals) if isinstance(e, ast.Set) else vals)
    if isinstance(e, ast.Dict):
        out_d = {}
        for k, v in zip(e.keys, e.values):
            if k is None:               # {**other}
                other = ceval(v, env, stubs)
                if isinstance(other, _Unknown):
                    return other
                out_d.update(other)
            else:
                out_d[ceval(k, env, stubs)] = ceval(v, env, stubs)
        return out_d
    if isinstance(e, ast.Subscript):
        b = ceval(e.value, env, stubs)
        if isinstance(e.slice, ast.Slice):
            lo = ceval(e.slice.lower, env, stubs) if e.slice.lower else None
            hi = ceval(e.slice.upper, env, stubs) if e.slice.upper else None
            st = ceval(e.slice.step, env, stubs) if e.slice.step else None
            return b[lo:hi:st]
        return b[ceval(e.slice, env, stubs)]
    if isinstance(e, ast.JoinedStr):
        out = ""
        for p in e.values:
            if isinstance(p, ast.Constant):
                out += p.value
            else:
                spec = ceval(p.format_spec, env, stubs) if p.format_spec is not None else ""
                v = ceval(p.value, env, stubs)
                if isinstance(v, _Unknown) or isinstance(spec, _Unknown):
                    return v if isinstance(v, _Unknown) else spec       # a text with an unknown part is an unknown text
                if p.conversion == 114:
                    v = repr(v)
                elif p.conversion == 115:
                    v = str(v)
                out += format(v, spec)
        return out
    if isinstance(e, ast.Call):
        is_pe_call = isinstance(e.func, ast.Name) and "__pe__" in stubs and (e.func.id in stubs["__pe__"][0].calls or e.func.id in getattr(stubs["__pe__"][0], "record_classes", {}))
        is_pe_call = is_pe_call or (isinstance(e.func, ast.Name) and isinstance(env.get(e.func.id), type) and hasattr(env.get(e.func.id), "_fields"))
        is_format = isinstance(e.func, ast.Attribute) and e.func.attr == "format"
        is_format = is_format or (isinstance(e.func, ast.Attribute) and isinstance(e.func.value, ast.Name) and hasattr(type(env.get(e.func.value.id)), "__pe_methods__"))
        if e.keywords and not is_pe_call and not is_format and not all(k.arg in ("maxsplit", "sep", "start", "key", "reverse", "data", "default", "strict", "initial", "fillvalue", "repeat") for k in e.keywords):
            raise Unsupported(f"partial evaluation: keyword arguments in `{norm(e)}`")
        kw = {k.arg: ceval(k.value, env, stubs) for k in e.keywords} if not is_pe_call else {}
        if isinstance(e.func, ast.Name) and e.func.id in _BUILTINS and e.func.id not in env:
            argv = []
            for a in e.args:
                if isinstance(a, ast.Starred):
                    sv = ceval(a.value, env, stubs)
                    if isinstance(sv, _Unknown):
                        return sv
                    argv.extend(list(sv))
                else:
                    argv.append(ceval(a, env, stubs))
            if e.func.id in ("list", "tuple", "enumerate", "zip", "iter", "next", "map", "filter", "reversed", "chain", "islice", "groupby", "accumulate", "pairwise", "dict") \
                    and any(_hash_ordered(a) for a in argv):
                raise Unsupported("partial evaluation: the members of a set of strings are visited in hash order")
            unk = [a for a in argv if isinstance(a, _Unknown)]
            if unk:
                g_ = next((a for a in unk if isinstance(a, _GapUnknown)), unk[0])
                if e.func.id in ("bool", "any", "all"):
                    _raise_unknown(g_)
                return g_
            return _BUILTINS[e.func.id](*argv, **kw)
        if isinstance(e.func, ast.Name) and "__pe__" in stubs and e.func.id in stubs["__pe__"][0].calls and e.func.id not in env:
            pe, st_ = stubs["__pe__"]
            argv = []
            for a in e.args:
                try:
                    if isinstance(a, ast.Starred):
                        sv = ceval(a.value, env, stubs)
                        if isinstance(sv, _Unknown):
                            raise Unsupported("partial evaluation: unknown sequence spread into a call")
                        argv.extend(list(sv))
                        continue
                    argv.append(ceval(a, env, stubs))
                except UnknownValue as ex:
                    argv.append(GAP if getattr(ex, "gap", False) else UNKNOWN)
            if e.keywords:
                ps_ = [a.arg for a in pe.calls[e.func.id][0].args.args]
                for k in e.keywords:
                    if k.arg in ps_ and ps_.index(k.arg) == len(argv):
                        argv.append(ceval(k.value, env, stubs))
                    else:
                        raise Unsupported(f"partial evaluation: keyword arguments in `{norm(e)}`")
            return pe.call(e.func.id, argv, st_)
        if isinstance(e.func, ast.Name) and e.func.id in stubs.get("__calls__", {}) and not e.keywords:
            return call_function(e.func.id, [_arg(a, env, stubs) for a in e.args], stubs, env)
        if "__pe__" in stubs and isinstance(e.func, ast.Name) and e.func.id in ("partial",) and e.func.id not in env and e.args and isinstance(e.args[0], ast.Name) \
                and e.args[0].id in stubs["__pe__"][0].calls and not e.keywords:
            # functools.partial over a followed function: the function with its first arguments fixed
            return _Partial(e.args[0].id, [ceval(a, env, stubs) for a in e.args[1:]], stubs["__pe__"][0])
        if isinstance(e.func, ast.Name) and e.func.id in env and any(env[e.func.id] is b_ for b_ in _BUILTINS.values()) and not e.keywords:
            # a builtin handed around as a value:  convert = int ... convert(text)
            argv = [ceval(a, env, stubs) for a in e.args]
            if any(isinstance(a, _Unknown) for a in argv):
                return next(a for a in argv if isinstance(a, _Unknown))
            return env[e.func.id](*argv)
        if isinstance(e.func, ast.Name) and getattr(env.get(e.func.id), "__module__", None) in ("_operator", "operator") and callable(env.get(e.func.id)) and not e.keywords:
            argv = [ceval(a, env, stubs) for a in e.args]
            if any(isinstance(a, _Unknown) for a in argv):
                return next(a for a in argv if isinstance(a, _Unknown))
            return env[e.func.id](*argv)
        if isinstance(e.func, ast.Name) and isinstance(env.get(e.func.id), _Lambda) and not e.keywords:
            lam = env[e.func.id]
            ps_ = [a.arg for a in lam.node.args.args]
            argv = [ceval(a, env, stubs) for a in e.args]
            if len(argv) != len(ps_):
                raise Unsupported("partial evaluation: lambda called with other than its positional parameters")
            env_l = dict(lam.env)
            env_l.update(zip(ps_, argv))
            return ceval(lam.node.body, env_l, stubs)
        if "__pe__" in stubs and isinstance(e.func, ast.Name) and isinstance(env.get(e.func.id), _Partial) and not e.keywords:
            pt = env[e.func.id]
            pe, st_ = stubs["__pe__"]
            return pe.call(pt.name, list(pt.args) + [ceval(a, env, stubs) for a in e.args], st_)
        if isinstance(e.func, ast.Name) and e.func.id in env and isinstance(env[e.func.id], type) and issubclass(env[e.func.id], tuple) and hasattr(env[e.func.id], "_fields"):
            # `cls(...)` inside a classmethod of a record class
            return env[e.func.id](*[ceval(a, env, stubs) for a in e.args], **{k.arg: ceval(k.value, env, stubs) for k in e.keywords})
        if "__pe__" in stubs and isinstance(e.func, ast.Attribute) and isinstance(e.func.value, ast.Name) and e.func.value.id not in env \
                and f"{e.func.value.id}.{e.func.attr}" in stubs["__pe__"][0].calls and e.func.value.id in getattr(stubs["__pe__"][0], "record_classes", {}):
            # a classmethod / staticmethod of a record class:  _Fields.from_line(line)
            pe, st_ = stubs["__pe__"]
            key_ = f"{e.func.value.id}.{e.func.attr}"
            fnode_ = pe.calls[key_][0]
            is_cm = any(norm(d) == "classmethod" for d in fnode_.decorator_list)
            argv = ([pe.record_classes[e.func.value.id]] if is_cm else []) + [ceval(a, env, stubs) for a in e.args]
            return pe.call(key_, argv, st_)
        if isinstance(e.func, ast.Name) and "__pe__" in stubs and e.func.id in getattr(stubs["__pe__"][0], "instance_classes", {}) and e.func.id not in env:
            pe, st_ = stubs["__pe__"]
            info = pe.instance_classes[e.func.id]
            inst = Instance(e.func.id)
            argv = [ceval(a, env, stubs) for a in e.args]
            kws = {k.arg: ceval(k.value, env, stubs) for k in e.keywords}
            if f"{e.func.id}.__init__" in pe.calls:
                fnode_ = pe.calls[f"{e.func.id}.__init__"][0]
                names_ = [a.arg for a in fnode_.args.args][1:]
                full = list(argv) + [None] * 0
                # keyword arguments go to their positions
                for nm_, v_ in kws.items():
                    if nm_ not in names_:
                        raise Unsupported(f"partial evaluation: unknown keyword `{nm_}` for {e.func.id}")
                pos = list(argv)
                for nm_ in names_[len(argv):]:
                    if nm_ in kws:
                        pos.append(kws[nm_])
                    else:
                        break
                if len([n_ for n_ in kws if n_ not in names_[len(argv):len(pos)]]) > 0:
                    raise Unsupported(f"partial evaluation: keyword arguments of {e.func.id}(...) out of order")
                pe.call(f"{e.func.id}.__init__", [inst] + pos, st_)
            elif info.get("fields") is not None:
                fields = info["fields"]            # dataclass: [(name, default or _NO_DEFAULT)]
                vals = dict(zip([f_[0] for f_ in fields], argv))
                vals.update(kws)
                for nm_, d_ in fields:
                    if nm_ not in vals:
                        if d_ is _NO_DEFAULT:
                            raise Unsupported(f"partial evaluation: {e.func.id}(...) misses `{nm_}`")
                        vals[nm_] = d_() if callable(d_) else d_
                inst.attrs.update(vals)
            elif argv or kws:
                raise Unsupported(f"partial evaluation: {e.func.id}(...) takes arguments but has no followed constructor")
            return inst
        if "__pe__" in stubs and isinstance(e.func, ast.Attribute) and isinstance(e.func.value, (ast.Name, ast.Attribute, ast.Subscript)) and not e.keywords:
            try:
                recv_r = ceval(e.func.value, env, stubs)
            except (Unsupported, UnknownValue):
                recv_r = None
            if isinstance(recv_r, tuple) and hasattr(recv_r, "_fields") and f"{type(recv_r).__name__}.{e.func.attr}" in stubs["__pe__"][0].calls:
                pe, st_ = stubs["__pe__"]
                return pe.call(f"{type(recv_r).__name__}.{e.func.attr}", [recv_r] + [ceval(a, env, stubs) for a in e.args], st_)
        if "__pe__" in stubs and isinstance(e.func, ast.Attribute):
            # a method of a followed object:  writer.add(line), self._wrap(text)
            try:
                recv_i = ceval(e.func.value, env, stubs) if isinstance(e.func.value, (ast.Name, ast.Attribute)) else None
            except (Unsupported, UnknownValue):
                recv_i = None
            if isinstance(recv_i, Instance):
                pe, st_ = stubs["__pe__"]
                key_ = f"{recv_i.cls}.{e.func.attr}"
                if key_ in pe.calls:
                    fnode_ = pe.calls[key_][0]
                    argv = []
                    for a in e.args:
                        if isinstance(a, ast.Starred):
                            sv = ceval(a.value, env, stubs)
                            if isinstance(sv, _Unknown):
                                raise Unsupported("partial evaluation: unknown sequence spread into a call")
                            argv.extend(list(sv))
                        else:
                            argv.append(ceval(a, env, stubs))
                    names_ = [a.arg for a in fnode_.args.args][1 + len(argv):]
                    for k in e.keywords:
                        if names_ and k.arg == names_[0]:
                            argv.append(ceval(k.value, env, stubs))
                            names_ = names_[1:]
                        else:
                            raise Unsupported(f"partial evaluation: keyword arguments in `{norm(e)}`")
                    is_static = any(norm(d) == "staticmethod" for d in fnode_.decorator_list)
                    return pe.call(key_, ([] if is_static else [recv_i]) + argv, st_)
                if e.func.attr in recv_i.attrs and isinstance(recv_i.attrs[e.func.attr], (_Partial, _Lambda)):
                    return recv_i.attrs[e.func.attr](*[ceval(a, env, stubs) for a in e.args])
        if isinstance(e.func, ast.Name) and "__pe__" in stubs and e.func.id in getattr(stubs["__pe__"][0], "record_classes", {}) and e.func.id not in env:
            cls_ = stubs["__pe__"][0].record_classes[e.func.id]
            argv = [ceval(a, env, stubs) for a in e.args]
            kws = {k.arg: ceval(k.value, env, stubs) for k in e.keywords}
            return cls_(*argv, **kws)
        if isinstance(e.func, ast.Name) and "__pe__" in stubs and e.func.id in getattr(stubs["__pe__"][0], "opaque_classes", ()) and e.func.id not in env:
            for a in e.args:
                _arg(a, env, stubs)
            return Opaque(e.func.id)
        if isinstance(e.func, ast.Attribute) and isinstance(e.func.value, ast.Name) and e.func.value.id == "chain" and "chain" not in env and e.func.attr == "from_iterable" and len(e.args) == 1:
            import itertools as _it
            arg = ceval(e.args[0], env, stubs)
            if isinstance(arg, _Unknown):
                return arg
            return list(_it.chain.from_iterable(arg))
        if isinstance(e.func, ast.Attribute) and isinstance(e.func.value, ast.Name) and e.func.value.id == "re" and "re" not in env \
                and e.func.attr in ("findall", "match", "fullmatch", "search", "split", "sub", "compile", "finditer"):
            import re as _re
            argv = [ceval(a, env, stubs) for a in e.args]
            if any(isinstance(a, _Unknown) for a in argv):
                return next(a for a in argv if isinstance(a, _Unknown))
            r_ = getattr(_re, e.func.attr)(*argv)
            return list(r_) if e.func.attr in ("findall", "split", "finditer") else r_
        if isinstance(e.func, ast.Attribute):
            recv = ceval(e.func.value, env, stubs)
            m = e.func.attr
            if isinstance(recv, Opaque):
                for a in e.args:
                    _arg(a, env, stubs)
                return UNKNOWN
            if isinstance(recv, ContextDefault) and m == "get" and not e.args:
                return recv.default
            if m in getattr(type(recv), "__pe_methods__", ()):
                # a sample object of the evaluator's own (SampleGraph): its methods are plain Python
                return getattr(recv, m)(*[ceval(a, env, stubs) for a in e.args], **{k.arg: ceval(k.value, env, stubs) for k in e.keywords})
            if isinstance(recv, _Unknown):
                for a in e.args:
                    _arg(a, env, stubs)
                return recv
            if isinstance(recv, str) and m in _STR_METHODS:
                argv = [ceval(a, env, stubs) for a in e.args]
                unk = [a for a in argv + list(kw.values()) if isinstance(a, _Unknown) or (isinstance(a, (list, tuple)) and any(isinstance(x_, _Unknown) for x_ in a))]
                if unk:
                    return unk[0] if isinstance(unk[0], _Unknown) else next(x_ for x_ in unk[0] if isinstance(x_, _Unknown))
                if m == "join" and argv and _hash_ordered(argv[0]):
                    raise Unsupported("partial evaluation: the members of a set of strings are joined in hash order")
                return getattr(recv, m)(*argv, **kw)
            if isinstance(recv, (list, tuple)) and m in _LIST_METHODS:
                return getattr(recv, m)(*[ceval(a, env, stubs) for a in e.args])
            if isinstance(recv, dict) and m in ("get", "keys", "values", "items"):
                return getattr(recv, m)(*[ceval(a, env, stubs) for a in e.args])
            if "__pe__" in stubs and isinstance(recv, (dict, list, set)) and m in ("setdefault", "pop", "copy", "union", "intersection", "difference", "issubset"):
                return getattr(recv, m)(*[ceval(a, env, stubs) for a in e.args])
            if "__pe__" in stubs and type(recv).__name__ == "deque" and m in ("popleft", "pop", "copy", "count", "index"):
                return getattr(recv, m)(*[ceval(a, env, stubs) for a in e.args])
            import re as _re
            if isinstance(recv, _re.Pattern) and m in ("match", "search", "fullmatch", "findall", "split", "sub"):
                argv = [ceval(a, env, stubs) for a in e.args]
                if any(isinstance(a, _Unknown) for a in argv):
                    return next(a for a in argv if isinstance(a, _Unknown))
                r_ = getattr(recv, m)(*argv)
                return list(r_) if m in ("findall", "split") else r_
            import datetime as _dtm
            if isinstance(recv, _dtm.datetime) and m in ("strftime", "isoformat", "timestamp"):
                return getattr(recv, m)(*[ceval(a, env, stubs) for a in e.args])
            if isinstance(recv, _re.Match) and m in ("group", "groups", "start", "end", "span", "groupdict"):
                return getattr(recv, m)(*[ceval(a, env, stubs) for a in e.args])
        if "__pe__" in stubs and isinstance(e.func, (ast.Attribute, ast.Subscript)) and not e.keywords:
            # a callable kept in a field or a table:  prop.is_valid(value), HANDLERS[kind](line)
            try:
                fv = ceval(e.func, env, stubs)
            except (Unsupported, UnknownValue):
                fv = None
            if isinstance(fv, (_Lambda, _Partial)):
                return fv(*[ceval(a, env, stubs) for a in e.args])
        raise Unsupported(f"partial evaluation: call `{norm(e)}`")
    if isinstance(e, ast.Lambda):
        return _Lambda(e, dict(env), stubs)
    if isinstance(e, ast.DictComp):
        out_dc = {}

        def rec_dc(i, env_):
            if i == len(e.generators):
                out_dc[ceval(e.key, env_, stubs)] = ceval(e.value, env_, stubs)
                return
            g = e.generators[i]
            src_ = ceval(g.iter, env_, stubs)
            if _hash_ordered(src_):
                raise Unsupported("partial evaluation: the members of a set of strings are visited in hash order")
            for item in src_:
                env2 = dict(env_)
                _bind(g.target, item, env2)
                if all(ceval(c, env2, stubs) for c in g.ifs):
                    rec_dc(i + 1, env2)
        rec_dc(0, dict(env))
        return out_dc
    if isinstance(e, (ast.ListComp, ast.GeneratorExp, ast.SetComp)):
        out = []

        def rec(i, env):
            if i == len(e.generators):
                out.append(ceval(e.elt, env, stubs))
                return
            g = e.generators[i]
            src_ = ceval(g.iter, env, stubs)
            if _hash_ordered(src_) and not isinstance(e, ast.SetComp):
                raise Unsupported("partial evaluation: the members of a set of strings are visited in hash order")
            for item in src_:
                env2 = dict(env)
                _bind(g.target, item, env2)
                if all(ceval(c, env2, stubs) for c in g.ifs):
                    rec(i + 1, env2)
        rec(0, dict(env))
        return set(out) if isinstance(e, ast.SetComp) else out
    raise Unsupported(f"partial evaluation: {type(e).__name__} `{norm(e)[:60]}`")


def _arg(a, env, stubs):
    try:
        return ceval(a, env, stubs)
    except UnknownValue:
        return UNKNOWN
    except Unsupported:
        return UNKNOWN


def call_function(name: str, args: list, stubs: dict, caller_env: dict | None = None):
    """run the body of a repository function registered in stubs['__calls__'] on the given (possibly unknown) arguments and
    hand back what it returns (UNKNOWN if that is not determined); a raise in the callee propagates as _Leave('raise')"""
    fnode, base = stubs["__calls__"][name]
    depth = stubs.get("__depth__", 0)
    if depth > 6:
        raise Unsupported("partial evaluation: call depth")
    env2 = dict(base)
    ps = [a.arg for a in fnode.args.args]
    for p_, v_ in zip(ps, args):
        env2[p_] = v_
    for p_ in ps[len(args):]:
        env2[p_] = UNKNOWN
    if caller_env is not None and "__trace__" in caller_env:
        env2["__trace__"] = caller_env["__trace__"]
    is_gen = any(isinstance(x, (ast.Yield, ast.YieldFrom)) for x in ast.walk(fnode))
    if is_gen:
        env2["__yields__"] = []
    stubs["__depth__"] = depth + 1
    try:
        _run(fnode.body, env2, stubs)
    except _Leave as l:
        if l.how == "return":
            return env2["__yields__"] if is_gen else l.value
        raise
    finally:
        stubs["__depth__"] = depth
    return env2["__yields__"] if is_gen else None


def _bind(t, v, env):
    if isinstance(t, ast.Name):
        env[t.id] = v
    elif isinstance(t, (ast.Tuple, ast.List)):
        vals = list(v)
        for a, b in zip(t.elts, vals):
            _bind(a, b, env)
    else:
        raise Unsupported("partial evaluation: binding target")


def run_straightline(stmts, env: dict, stubs: dict | None = None, call_hook=None) -> dict:
    """evaluate simple assignments in order; statements that cannot be evaluated are skipped
    (their targets stay unbound, so any later use raises Unsupported)"""
    for st in stmts:
        if isinstance(st, ast.Assign) and len(st.targets) == 1 and isinstance(st.targets[0], (ast.Name, ast.Tuple)):
            try:
                v = call_hook(st.value, env) if call_hook else NotImplemented
                if v is NotImplemented:
                    v = ceval(st.value, env, stubs)
                _bind(st.targets[0], v, env)
            except (Unsupported, Exception):
                continue
        elif isinstance(st, ast.AnnAssign) and st.value is not None and isinstance(st.target, ast.Name):
            try:
                env[st.target.id] = ceval(st.value, env, stubs)
            except (Unsupported, Exception):
                continue
    return env


class UnknownValue(Exception):
    """a value that the sample does not determine was needed as a truth value"""


class _Unknown:
    """a value the sample does not determine: it flows through look-ups and arithmetic, and refuses to be tested"""

    def __bool__(self):
        raise UnknownValue()

    def __repr__(self):
        return "<unknown>"

    def __eq__(self, o):
        raise UnknownValue()

    def __ne__(self, o):
        raise UnknownValue()

    def __hash__(self):
        return 0

    def __getitem__(self, k):
        return self

    def __iter__(self):
        raise UnknownValue()

    def __contains__(self, x):
        raise UnknownValue()

    def __len__(self):
        raise UnknownValue()

    def _same(self, *a):
        return self
    __add__ = __radd__ = __sub__ = __rsub__ = __mul__ = __rmul__ = __floordiv__ = __mod__ = __or__ = __ror__ = __and__ = __neg__ = _same

    def _cmp(self, o):
        raise UnknownValue()
    __lt__ = __le__ = __gt__ = __ge__ = _cmp


UNKNOWN = _Unknown()
_NO_DEFAULT = object()


class Instance:
    """an object of one of the repository's plain classes (followed: its methods are in PathEval.calls as `Class.method`)"""

    def __init__(self, cls: str):
        self.cls = cls
        self.attrs: dict = {}

    def __repr__(self):
        return f"<{self.cls} {self.attrs!r}>"

    # what Python would look up on the class (comparison, text, truth, length, iteration) is not modelled: using the object
    # in such a place ends the evaluation of that sample instead of giving object-identity semantics silently
    def _unmodelled(self, *a, **k):
        raise Unsupported(f"partial evaluation: an object of class {self.cls} is compared, printed, tested or iterated")
    __eq__ = __ne__ = __lt__ = __le__ = __gt__ = __ge__ = __str__ = __format__ = __bool__ = __len__ = __iter__ = __contains__ = _unmodelled

    def __hash__(self):
        return id(self)


class _Lambda:
    """a lambda expression with the names it can see; callable, so that it can serve as a sort key"""

    def __init__(self, node, env, stubs=None):
        self.node, self.env, self.stubs = node, env, stubs

    def __call__(self, *args):
        ps_ = [a.arg for a in self.node.args.args]
        if len(args) != len(ps_):
            raise Unsupported("partial evaluation: lambda called with other than its positional parameters")
        env_l = dict(self.env)
        env_l.update(zip(ps_, args))
        return ceval(self.node.body, env_l, self.stubs)


class _Partial:
    """functools.partial(<followed function>, *args); also a followed function used as a value (no fixed arguments).
    Callable from plain Python (a sort key) when it knows its evaluator."""

    def __init__(self, name, args, pe=None):
        self.name, self.args, self.pe = name, args, pe

    def __call__(self, *args):
        if self.pe is None:
            raise Unsupported("partial evaluation: function value called outside the evaluator")
        return self.pe.call(self.name, list(self.args) + list(args), PState({}))


class ModuleValues:
    """a module of the repository imported under a name (`import tucan.graph_attributes as ga`): its constants"""

    def __init__(self, values: dict):
        self.values = values


class ContextDefault:
    """a module-level contextvars.ContextVar as seen by code that never entered a context that sets it: get() gives the default"""

    def __init__(self, default):
        self.default = default


class Opaque:
    """an instance of a class of the repository whose inside is not followed: it is an object (so it is not None), what its
    methods give back is unknown, and it refuses to be used as a truth value"""

    def __init__(self, cls: str):
        self.cls = cls

    def __bool__(self):
        raise UnknownValue()

    def __repr__(self):
        return f"<{self.cls} object>"


class _Leave(BaseException):
    def __init__(self, how="leave", value=None):
        self.how = how
        self.value = value


def run_outcome(stmts, env: dict, stubs: dict | None = None) -> str:
    """how one pass over the statements ends on concrete values: 'raise', 'return', 'continue', 'break' or 'fall'"""
    try:
        _run(stmts, env, stubs)
    except _Leave as l:
        return l.how
    return "fall"


def _unbind(node, env):
    for n in ast.walk(node):
        if isinstance(n, ast.Name) and isinstance(n.ctx, ast.Store):
            env.pop(n.id, None)


def run_body(stmts, env: dict, stubs: dict | None = None) -> dict:
    """Run one pass over a statement list on concrete values.  Branches are chosen by evaluating their tests (a test that
    cannot be evaluated raises Unsupported: nothing is guessed); calls used as statements are no-ops except add / append /
    update / extend on a container that lives in `env`; a statement that cannot be evaluated unbinds what it would have
    bound.  continue / break / return / raise end the pass."""
    try:
        _run(stmts, env, stubs)
    except _Leave:
        pass
    return env


def _gap(stubs, what):
    stubs.setdefault("__gaps__", []).append(what)


def _stored_names(node):
    out = {n.id for n in ast.walk(node) if isinstance(n, ast.Name) and isinstance(n.ctx, ast.Store)}
    for n in ast.walk(node):
        if isinstance(n, (ast.MatchAs, ast.MatchStar)) and n.name is not None:
            out.add(n.name)
        elif isinstance(n, ast.MatchMapping) and n.rest is not None:
            out.add(n.rest)
    return out


def _value(e, env, stubs, what):
    """value of e; UNKNOWN when the sample does not determine it; UNKNOWN plus a recorded gap when this evaluator cannot
    read the expression"""
    try:
        return ceval(e, env, stubs)
    except UnknownValue:
        return UNKNOWN
    except Unsupported as ex:
        _gap(stubs, f"{what}: {ex}")
        return UNKNOWN
    except Exception as ex:          # the program itself would fail here on this sample (or on an unknown)
        _gap(stubs, f"{what}: {type(ex).__name__}")
        return UNKNOWN


def _run(stmts, env, stubs):
    stubs = stubs if stubs is not None else {}
    strict = bool(stubs.get("__unknowns__"))
    for st in stmts:
        if "__trace__" in env:
            env["__trace__"].add(id(st))
        if isinstance(st, ast.If):
            try:
                take = bool(ceval(st.test, env, stubs))
            except (NameError, UnboundLocalError):
                raise
            except Exception as ex:
                if not isinstance(ex, UnknownValue):
                    _gap(stubs, f"test `{norm(st.test)[:60]}`: {ex}")
                # the sample does not decide this test: follow both branches; what they disagree on is unknown afterwards
                e1, e2 = dict(env), dict(env)
                if "__trace__" in env:
                    e1["__trace__"], e2["__trace__"] = set(env["__trace__"]), set(env["__trace__"])
                l1 = l2 = None
                try:
                    _run(st.body, e1, stubs)
                except _Leave as l:
                    l1 = l
                try:
                    _run(st.orelse, e2, stubs)
                except _Leave as l:
                    l2 = l
                if "__trace__" in env:
                    # executed for sure: what both branches executed (a branch that leaves does not constrain the rest)
                    t1, t2 = e1.pop("__trace__"), e2.pop("__trace__")
                    if l1 is not None and l2 is None:
                        env["__trace__"] |= t2
                    elif l2 is not None and l1 is None:
                        env["__trace__"] |= t1
                    else:
                        env["__trace__"] |= (t1 & t2)
                if l1 is not None and l2 is not None:
                    raise l1
                if strict and (l1 is not None or l2 is not None):
                    # one branch leaves: what follows is reached through the other one only
                    keep = e2 if l1 is not None else e1
                    for k in [k for k in env if k != "__trace__"]:
                        env.pop(k)
                    env.update(keep)
                    continue
                for k in set(e1) | set(e2):
                    a, b = e1.get(k, UNKNOWN), e2.get(k, UNKNOWN)
                    try:
                        same = (a is b) or (type(a) is type(b) and a == b)
                    except (NameError, UnboundLocalError):
                        raise
                    except Exception:
                        same = False
                    env[k] = a if same else UNKNOWN
                continue
            _run(st.body if take else st.orelse, env, stubs)
        elif isinstance(st, ast.Assign):
            if strict:
                v = _value(st.value, env, stubs, f"`{norm(st)[:60]}`")
            else:
                try:
                    v = ceval(st.value, env, stubs)
                except (NameError, UnboundLocalError):
                    raise
                except Exception:
                    for t in st.targets:
                        _unbind(t, env)
                    continue
            for t in st.targets:
                if isinstance(t, (ast.Name, ast.Tuple, ast.List)):
                    try:
                        _bind(t, v, env)
                    except (NameError, UnboundLocalError):
                        raise
                    except Exception:
                        if strict:
                            for nm in _stored_names(t):
                                env[nm] = UNKNOWN
                        else:
                            _unbind(t, env)
                elif isinstance(t, ast.Subscript) and isinstance(t.value, ast.Name) and isinstance(env.get(t.value.id), (dict, list)):
                    try:
                        k_ = ceval(t.slice, env, stubs)
                        box = type(env[t.value.id])(env[t.value.id])
                        box[k_] = v
                        env[t.value.id] = box
                    except (NameError, UnboundLocalError):
                        raise
                    except Exception:
                        env[t.value.id] = UNKNOWN
        elif isinstance(st, ast.AnnAssign):
            if st.value is not None and isinstance(st.target, ast.Name):
                if strict:
                    env[st.target.id] = _value(st.value, env, stubs, f"`{norm(st)[:60]}`")
                else:
                    try:
                        env[st.target.id] = ceval(st.value, env, stubs)
                    except (NameError, UnboundLocalError):
                        raise
                    except Exception:
                        env.pop(st.target.id, None)
        elif isinstance(st, ast.AugAssign):
            if isinstance(st.target, ast.Name):
                try:
                    op = _BIN[type(st.op)]
                    env[st.target.id] = op(env[st.target.id], ceval(st.value, env, stubs))
                except (NameError, UnboundLocalError):
                    raise
                except Exception:
                    if strict:
                        env[st.target.id] = UNKNOWN
                    else:
                        env.pop(st.target.id, None)
        elif isinstance(st, ast.Expr) and isinstance(st.value, (ast.Yield, ast.YieldFrom)):
            if "__yields__" not in env:
                _gap(stubs, "yield outside a followed generator")
                continue
            if isinstance(st.value, ast.Yield):
                env["__yields__"].append(_value(st.value.value, env, stubs, "yield") if st.value.value is not None else None)
            else:
                v = _value(st.value.value, env, stubs, "yield from")
                try:
                    env["__yields__"].extend(list(v))
                except (NameError, UnboundLocalError):
                    raise
                except Exception:
                    env["__yields__"].append(UNKNOWN)
                    _gap(stubs, "yield from an unknown sequence")
        elif isinstance(st, ast.Expr) and isinstance(st.value, ast.Call) and isinstance(st.value.func, ast.Name) \
                and st.value.func.id in stubs.get("__calls__", {}) and not st.value.keywords:
            call_function(st.value.func.id, [_arg(a, env, stubs) for a in st.value.args], stubs, env)
        elif isinstance(st, ast.Expr):
            c = st.value
            if isinstance(c, ast.Call) and isinstance(c.func, ast.Attribute) and isinstance(c.func.value, ast.Name) and c.func.value.id in env \
                    and c.func.attr in ("add", "append", "update", "extend") and len(c.args) == 1:
                box = env[c.func.value.id]
                try:
                    v = ceval(c.args[0], env, stubs)
                    if isinstance(box, (set, list, dict)):
                        box = type(box)(box)          # containers of the initial environment are not shared between passes
                        getattr(box, c.func.attr)(v)
                        env[c.func.value.id] = box
                except (NameError, UnboundLocalError):
                    raise
                except Exception:
                    if strict:
                        env[c.func.value.id] = UNKNOWN
                    else:
                        env.pop(c.func.value.id, None)
            elif strict and isinstance(c, ast.Call):
                # a call for its effect: arguments that are calls of followed functions are still run (they may raise)
                for a in c.args:
                    if isinstance(a, ast.Call) and isinstance(a.func, ast.Name) and a.func.id in stubs.get("__calls__", {}):
                        _arg(a, env, stubs)
        elif isinstance(st, ast.For):
            try:
                items = list(ceval(st.iter, env, stubs))
            except (NameError, UnboundLocalError):
                raise
            except Exception as ex:
                if strict:
                    if not isinstance(ex, UnknownValue):
                        _gap(stubs, f"loop over `{norm(st.iter)[:50]}`: {ex}")
                    for nm in _stored_names(st):
                        env[nm] = UNKNOWN
                else:
                    _unbind(st, env)
                continue
            if len(items) > 64:
                _unbind(st, env)
                continue
            broke = False
            for it in items:
                try:
                    _bind(st.target, it, env)
                except (NameError, UnboundLocalError):
                    raise
                except Exception:
                    _unbind(st, env)
                    break
                try:
                    _run(st.body, env, stubs)
                except _Leave as l:
                    if l.how == "break":
                        broke = True
                        break
                    if l.how == "continue":
                        continue
                    raise
            if not broke and st.orelse:
                _run(st.orelse, env, stubs)
        elif isinstance(st, ast.Return):
            v = None
            if st.value is not None:
                v = _value(st.value, env, stubs, "return") if strict else UNKNOWN
                if not strict:
                    try:
                        v = ceval(st.value, env, stubs)
                    except (NameError, UnboundLocalError):
                        raise
                    except Exception:
                        v = UNKNOWN
            raise _Leave("return", v)
        elif isinstance(st, (ast.Continue, ast.Break, ast.Raise)):
            raise _Leave(type(st).__name__.lower())
        elif isinstance(st, (ast.Pass, ast.Assert, ast.Import, ast.ImportFrom, ast.Global, ast.Nonlocal)):
            pass
        elif isinstance(st, ast.Expr) and isinstance(st.value, ast.Constant):
            pass
        else:
            if strict:
                _gap(stubs, f"{type(st).__name__} statement")
                for nm in _stored_names(st):
                    env[nm] = UNKNOWN
            else:
                _unbind(st, env)


# --------------------------------------------------------------------------- path-splitting evaluation on samples


class _GapUnknown(_Unknown):
    """unknown because this evaluator could not read something (not because the sample leaves it open)"""

    def __repr__(self):
        return "<unread>"


def _raise_unknown(self, *a):
    ex = UnknownValue()
    ex.gap = isinstance(self, _GapUnknown)
    raise ex


for _n in ("__bool__", "__eq__", "__ne__", "__iter__", "__contains__", "__len__", "__lt__", "__le__", "__gt__", "__ge__"):
    setattr(_Unknown, _n, _raise_unknown)
_Unknown.__hash__ = lambda self: 0
_Unknown.__deepcopy__ = lambda self, memo: self
_Unknown.__copy__ = lambda self: self


def _absorb(self, other=None):
    return other if isinstance(other, _GapUnknown) else self


for _n in ("__add__", "__radd__", "__sub__", "__rsub__", "__mul__", "__rmul__", "__floordiv__", "__mod__", "__or__", "__ror__", "__and__"):
    setattr(_Unknown, _n, _absorb)
_Unknown.__neg__ = lambda self: self
GAP = _GapUnknown()


class _ProgExc(BaseException):
    """an exception the program itself raises on the sample (int('x'), d[missing], ...), seen inside a try statement"""

    def __init__(self, exc):
        self.exc = exc


class PState:
    def __init__(self, env, trace=None, yields=None):
        self.env = env
        self.trace = set() if trace is None else trace
        self.yields = yields

    def fork(self):
        import copy
        memo = {}
        env2 = copy.deepcopy(self.env, memo)
        return PState(env2, set(self.trace), copy.deepcopy(self.yields, memo) if self.yields is not None else None)


class PathEval:
    """Follows statements on sample values, path by path: a test the sample does not decide splits the path, nothing is
    merged.  Containers are shared by reference (a helper that fills its argument fills the caller's object).  Calls of
    registered repository functions are followed; what cannot be read is recorded in `gaps` and yields an unread value."""

    MUTATORS = {"append", "add", "update", "extend", "setdefault", "pop", "clear", "insert", "remove", "discard", "popleft", "appendleft", "extendleft", "sort", "reverse"}

    def __init__(self, calls: dict, limit: int = 256):
        self.calls = calls
        self.limit = limit
        self.gaps: list[str] = []
        self.depth = 0
        self.try_depth = 0
        self.opaque_classes: set[str] = set()      # names of repository classes whose instances are not followed
        self.record_classes: dict = {}             # name -> namedtuple class rebuilt from a NamedTuple class of the repository
        self.instance_classes: dict = {}           # name -> {"fields": dataclass fields or None, "class_attrs": {...}} of plain classes
        self.stop: dict[int, str] = {}             # id(statement) -> tag: a path that arrives there ends, leaving as 'stop:<tag>'

    def gap(self, what: str):
        self.gaps.append(what)

    # ---- expressions
    def ev(self, e, s: PState, what: str = ""):
        if e is None:
            return None
        try:
            return ceval(e, s.env, {"__pe__": (self, s)})
        except UnknownValue as ex:
            return GAP if getattr(ex, "gap", False) else UNKNOWN
        except Unsupported as ex:
            self.gap(f"{what or norm(e)[:50]}: {ex}")
            return GAP
        except _Leave:
            raise
        except RecursionError:
            raise
        except (ValueError, KeyError, IndexError, ZeroDivisionError) as ex:
            if self.try_depth > 0:
                raise _ProgExc(ex)
            if isinstance(ex, (KeyError, IndexError)) and self._operands_known(e, s):
                # a look-up that fails on values the sample fixes completely: the program's own exception on this path
                raise _Leave("raise", type(ex).__name__)
            self.gap(f"{what or norm(e)[:50]}: {type(ex).__name__} {ex}")
            return GAP
        except (NameError, UnboundLocalError):
            raise
        except Exception as ex:
            self.gap(f"{what or norm(e)[:50]}: {type(ex).__name__} {ex}")
            return GAP

    def _operands_known(self, e, s: PState) -> bool:
        """every name the expression reads holds a value without unknown parts, and it calls nothing that is followed into
        (only subscripts, attributes of known objects, literals, arithmetic)"""
        def known(v, d=0):
            if isinstance(v, _Unknown):
                return False
            if d > 3:
                return True
            if isinstance(v, dict):
                return all(known(k_, d + 1) and known(x_, d + 1) for k_, x_ in v.items())
            if isinstance(v, (list, tuple, set, frozenset)):
                return all(known(x_, d + 1) for x_ in v)
            if isinstance(v, Instance):
                return all(known(x_, d + 1) for x_ in vars(v).values())
            return True
        for x in ast.walk(e):
            if isinstance(x, ast.Call):
                return False
            if isinstance(x, (ast.Lambda, ast.ListComp, ast.DictComp, ast.SetComp, ast.GeneratorExp, ast.Await, ast.Yield, ast.YieldFrom, ast.NamedExpr)):
                return False
            if isinstance(x, ast.Name) and isinstance(x.ctx, ast.Load):
                if x.id not in s.env or not known(s.env[x.id]):
                    return False
        return True

    def test(self, e, s: PState):
        """True / False / None (not decided by the sample)"""
        try:
            return bool(ceval(e, s.env, {"__pe__": (self, s)}))
        except UnknownValue as ex:
            if getattr(ex, "gap", False):
                self.gap(f"test `{norm(e)[:50]}` depends on something that was not read")
            return None
        except Unsupported as ex:
            self.gap(f"test `{norm(e)[:50]}`: {ex}")
            return None
        except _Leave:
            raise
        except (NameError, UnboundLocalError):
            raise
        except Exception as ex:
            self.gap(f"test `{norm(e)[:50]}`: {type(ex).__name__} {ex}")
            return None

    def call(self, name: str, args: list, s: PState):
        fnode, base = self.calls[name]
        if self.depth > 8:
            raise Unsupported("call depth")
        env2 = dict(base)
        ps = [a.arg for a in fnode.args.args]
        for p_, v_ in zip(ps, args):
            env2[p_] = v_
        for i_, p_ in enumerate(ps[len(args):]):
            dflt = fnode.args.defaults
            j = len(ps) - len(dflt)
            k = len(args) + i_
            env2[p_] = self.ev(dflt[k - j], PState(dict(base))) if k >= j else UNKNOWN
        for a_, d_ in zip(fnode.args.kwonlyargs, fnode.args.kw_defaults):
            if a_.arg not in env2:
                env2[a_.arg] = self.ev(d_, PState(dict(base))) if d_ is not None else UNKNOWN
        is_gen = any(isinstance(x, (ast.Yield, ast.YieldFrom)) for x in ast.walk(fnode))
        sub = PState(env2, set(s.trace), [] if is_gen else None)
        self.depth += 1
        try:
            falls, lefts = self.block(fnode.body, [sub])
        finally:
            self.depth -= 1
        outs = [(st_, None) for st_ in falls] + [(st_, v_) for st_, how, v_ in lefts if how == "return"]
        if not outs:
            classes = {v_ for _st, how, v_ in lefts if how == "raise"}
            raise _Leave("raise", next(iter(classes)) if len(classes) == 1 else None)      # what is raised, when every path raises the same
        tr = None
        for st_, _v in outs:
            tr = set(st_.trace) if tr is None else tr & st_.trace
        s.trace |= tr
        if len(outs) == 1:
            st_, v_ = outs[0]
            # the surviving path may have worked on copies (made where it split from paths that raised): write back
            for p_, a_ in zip(ps, args):
                fin = st_.env.get(p_)
                if fin is not a_ and isinstance(a_, (dict, list, set)) and type(fin) is type(a_):
                    if isinstance(a_, list):
                        a_[:] = fin
                    else:
                        a_.clear()
                        a_.update(fin)
            return (st_.yields if is_gen else v_)
        # several ways through the callee: containers it was handed may differ between them
        self._diverged = getattr(self, "_diverged", set()) | {id(a_) for a_ in args if isinstance(a_, (dict, list, set))}
        vals = [(st_.yields if is_gen else v_) for st_, v_ in outs]
        try:
            same = all(type(v) is type(vals[0]) and v == vals[0] for v in vals[1:])
        except (NameError, UnboundLocalError):
            raise
        except Exception:
            same = False
        return vals[0] if same else UNKNOWN

    def _poison(self, s: PState):
        d = getattr(self, "_diverged", None)
        if d:
            for k, v in list(s.env.items()):
                if id(v) in d:
                    s.env[k] = UNKNOWN
            self._diverged = set()

    # ---- statements
    def block(self, stmts, states):
        lefts = []
        for node in stmts:
            nxt = []
            for s in states:
                s.trace.add(id(node))
                if id(node) in self.stop:
                    lefts.append((s, "stop:" + self.stop[id(node)], None))
                    continue
                try:
                    f, l = self.stmt(node, s)
                except _Leave as lv:
                    # a followed call inside the statement ends in a raise on every path
                    f, l = [], [(s, "raise", lv.value if lv.how == "raise" else None)]
                nxt += f
                lefts += l
            states = nxt
            if len(states) + len(lefts) > self.limit:
                raise Unsupported("too many paths on the sample")
            if not states:
                break
        return states, lefts

    def _match(self, pat, subj, binds: dict, s: PState) -> bool:
        """structural pattern matching on a known subject (PEP 634); captures go to `binds`"""
        if isinstance(pat, ast.MatchValue):
            v = self.ev(pat.value, s)
            if isinstance(v, _Unknown):
                raise Unsupported("pattern value not determined")
            return subj == v
        if isinstance(pat, ast.MatchSingleton):
            return subj is pat.value
        if isinstance(pat, ast.MatchAs):
            if pat.pattern is not None and not self._match(pat.pattern, subj, binds, s):
                return False
            if pat.name is not None:
                binds[pat.name] = subj
            return True
        if isinstance(pat, ast.MatchOr):
            for alt in pat.patterns:
                b2: dict = {}
                if self._match(alt, subj, b2, s):
                    binds.update(b2)
                    return True
            return False
        if isinstance(pat, ast.MatchSequence):
            if isinstance(subj, (str, bytes, dict, set)) or not isinstance(subj, (list, tuple)) and type(subj).__name__ != "deque":
                return False
            items = list(subj)
            stars = [i for i, p_ in enumerate(pat.patterns) if isinstance(p_, ast.MatchStar)]
            if not stars:
                if len(items) != len(pat.patterns):
                    return False
                return all(self._match(p_, x_, binds, s) for p_, x_ in zip(pat.patterns, items))
            i = stars[0]
            after = len(pat.patterns) - i - 1
            if len(items) < len(pat.patterns) - 1:
                return False
            head, mid, tail = items[:i], items[i:len(items) - after], items[len(items) - after:]
            if not all(self._match(p_, x_, binds, s) for p_, x_ in zip(pat.patterns[:i], head)):
                return False
            if not all(self._match(p_, x_, binds, s) for p_, x_ in zip(pat.patterns[i + 1:], tail)):
                return False
            if pat.patterns[i].name is not None:
                binds[pat.patterns[i].name] = list(mid)
            return True
        if isinstance(pat, ast.MatchMapping):
            if not isinstance(subj, dict):
                return False
            keys = []
            for k_, p_ in zip(pat.keys, pat.patterns):
                kv = self.ev(k_, s)
                if isinstance(kv, _Unknown):
                    raise Unsupported("pattern key not determined")
                if kv not in subj:
                    return False
                keys.append(kv)
                if not self._match(p_, subj[kv], binds, s):
                    return False
            if pat.rest is not None:
                binds[pat.rest] = {k_: v_ for k_, v_ in subj.items() if k_ not in keys}
            return True
        if isinstance(pat, ast.MatchClass):
            cname = norm(pat.cls)
            builtin = {"str": str, "int": int, "float": float, "bool": bool, "list": list, "tuple": tuple, "dict": dict, "set": set, "bytes": bytes}
            if cname in builtin:
                if not isinstance(subj, builtin[cname]) or (cname == "int" and isinstance(subj, bool)):
                    return False
                if pat.patterns:
                    if len(pat.patterns) != 1 or pat.kwd_patterns:
                        raise Unsupported("class pattern on a builtin with several sub-patterns")
                    return self._match(pat.patterns[0], subj, binds, s)
                return True
            rc = self.record_classes.get(cname)
            if rc is not None:
                if not isinstance(subj, rc):
                    return False
                fields = rc._fields
                if len(pat.patterns) > len(fields):
                    return False
                for p_, f_ in zip(pat.patterns, fields):
                    if not self._match(p_, getattr(subj, f_), binds, s):
                        return False
                for a_, p_ in zip(pat.kwd_attrs, pat.kwd_patterns):
                    if a_ not in fields or not self._match(p_, getattr(subj, a_), binds, s):
                        return False
                return True
            raise Unsupported(f"class pattern `{cname}`")
        raise Unsupported(f"pattern {type(pat).__name__}")

    def _store(self, target, v, s: PState):
        if isinstance(target, ast.Name):
            s.env[target.id] = v
        elif isinstance(target, (ast.Tuple, ast.List)):
            try:
                vals = list(v)
                stars = [i for i, t_ in enumerate(target.elts) if isinstance(t_, ast.Starred)]
                if len(stars) == 1 and len(vals) >= len(target.elts) - 1:
                    i = stars[0]
                    after = len(target.elts) - i - 1
                    vals = vals[:i] + [vals[i:len(vals) - after]] + vals[len(vals) - after:]
                if len(vals) != len(target.elts):
                    raise ValueError
            except (NameError, UnboundLocalError):
                raise
            except Exception:
                vals = [GAP if isinstance(v, _GapUnknown) else UNKNOWN] * len(target.elts)
            for t_, x_ in zip(target.elts, vals):
                self._store(t_, x_, s)
        elif isinstance(target, ast.Subscript):
            obj = self.ev(target.value, s)
            k = self.ev(target.slice, s) if not isinstance(target.slice, ast.Slice) else GAP
            if isinstance(obj, (dict, list)) and not isinstance(k, _Unknown):
                try:
                    obj[k] = v
                except (NameError, UnboundLocalError):
                    raise
                except Exception as ex:
                    self.gap(f"store `{norm(target)[:40]}`: {type(ex).__name__}")
            elif isinstance(obj, (dict, list)):
                # stored under a key the sample does not determine: the container is no longer known
                for nm, val in list(s.env.items()):
                    if val is obj:
                        s.env[nm] = GAP if isinstance(k, _GapUnknown) else UNKNOWN
        elif isinstance(target, ast.Attribute):
            obj = self.ev(target.value, s)
            if isinstance(obj, Instance):
                obj.attrs[target.attr] = v
            else:
                self.gap(f"store to attribute `{norm(target)[:40]}`")
        elif isinstance(target, ast.Starred):
            self._store(target.value, v, s)

    def stmt(self, node, s: PState):
        """-> (states that go on, [(state, how, value)] that leave)"""
        if isinstance(node, ast.If):
            t = self.test(node.test, s)
            self._poison(s)
            if t is None:
                s2 = s.fork()
                f1, l1 = self.block(node.body, [s])
                f2, l2 = self.block(node.orelse, [s2])
                return f1 + f2, l1 + l2
            return self.block(node.body if t else node.orelse, [s])
        if isinstance(node, ast.Assign):
            v = self.ev(node.value, s, f"`{norm(node)[:50]}`")
            self._poison(s)
            for t_ in node.targets:
                self._store(t_, v, s)
            return [s], []
        if isinstance(node, ast.AnnAssign):
            if node.value is not None:
                self._store(node.target, self.ev(node.value, s, f"`{norm(node)[:50]}`"), s)
                self._poison(s)
            return [s], []
        if isinstance(node, ast.AugAssign):
            cur = self.ev(ast.copy_location(_as_load(node.target), node.target), s)
            v = self.ev(node.value, s)
            try:
                if isinstance(cur, (list, set, dict)) and type(node.op) in (ast.Add, ast.BitOr):
                    # in-place: the object is shared
                    if isinstance(cur, list):
                        cur.extend(v)
                    else:
                        cur.update(v)
                    new = cur
                else:
                    new = _BIN[type(node.op)](cur, v)
            except (NameError, UnboundLocalError):
                raise
            except Exception:
                new = GAP if isinstance(cur, _GapUnknown) or isinstance(v, _GapUnknown) else UNKNOWN
            self._store(node.target, new, s)
            self._poison(s)
            return [s], []
        if isinstance(node, ast.Expr):
            c = node.value
            if isinstance(c, ast.Constant):
                return [s], []
            if isinstance(c, ast.Yield):
                if s.yields is None:
                    self.gap("yield outside a followed generator")
                else:
                    s.yields.append(self.ev(c.value, s) if c.value is not None else None)
                return [s], []
            if isinstance(c, ast.YieldFrom):
                v = self.ev(c.value, s)
                try:
                    s.yields.extend(list(v))
                except (NameError, UnboundLocalError):
                    raise
                except Exception:
                    self.gap("yield from a sequence that is not known")
                return [s], []
            if isinstance(c, ast.Call) and isinstance(c.func, ast.Attribute) and c.func.attr in self.MUTATORS:
                recv = self.ev(c.func.value, s)
                args = [self.ev(a, s) for a in c.args]
                if isinstance(recv, (dict, list, set)) or type(recv).__name__ == "deque":
                    if any(isinstance(a, _Unknown) for a in args) and c.func.attr in ("update", "extend"):
                        for nm, val in list(s.env.items()):
                            if val is recv:
                                s.env[nm] = GAP if any(isinstance(a, _GapUnknown) for a in args) else UNKNOWN
                    else:
                        try:
                            getattr(recv, c.func.attr)(*args)
                        except (NameError, UnboundLocalError):
                            raise
                        except Exception as ex:
                            self.gap(f"`{norm(c)[:50]}`: {type(ex).__name__}")
                self._poison(s)
                return [s], []
            v = self.ev(c, s, f"`{norm(c)[:50]}`")
            if isinstance(v, _GapUnknown) and isinstance(c, ast.Call):
                # a call that was not followed may change the containers it is handed
                for a in c.args:
                    if isinstance(a, ast.Name) and isinstance(s.env.get(a.id), (dict, list, set)):
                        s.env[a.id] = GAP
            self._poison(s)
            return [s], []
        if isinstance(node, ast.For):
            it = self.ev(node.iter, s, f"loop over `{norm(node.iter)[:40]}`")
            self._poison(s)
            if _hash_ordered(it):
                self.gap(f"loop over `{norm(node.iter)[:40]}`: the members of a set of strings are visited in hash order")
                for nm in _stored_names(node):
                    s.env[nm] = GAP
                return [s], []
            lazy = hasattr(it, "__next__") and type(it).__name__ not in ("count", "cycle", "repeat")
            if lazy:
                # an iterator object (iter(x), a zip, ...) may be advanced inside the body as well (next(it)): pull one item
                # per pass instead of reading it out in advance
                live, after, lefts = [s], [], []
                passes = 0
                while live:
                    if len(live) > 1:
                        raise Unsupported("an iterator is advanced on several ways at once")
                    try:
                        item = next(it)
                    except StopIteration:
                        break
                    passes += 1
                    if passes > 5000:
                        raise Unsupported("loop over an iterator does not end on the sample")
                    st_ = live[0]
                    self._store(node.target, item, st_)
                    f, l = self.block(node.body, [st_])
                    live = list(f)
                    for ls, how, v in l:
                        if how == "continue":
                            live.append(ls)
                        elif how == "break":
                            after.append(ls)
                        else:
                            lefts.append((ls, how, v))
                if node.orelse and live:
                    f, l = self.block(node.orelse, live)
                    live = f
                    lefts += l
                return live + after, lefts
            try:
                items = None if isinstance(it, _Unknown) or type(it).__name__ in ("count", "cycle", "repeat") else list(it)
            except (NameError, UnboundLocalError):
                raise
            except Exception:
                items = None
            if items is None or len(items) > 64:
                # zero or more passes over something unknown: what the body binds or fills is unknown afterwards
                unk = GAP if isinstance(it, _GapUnknown) else UNKNOWN
                for nm in _stored_names(node):
                    s.env[nm] = unk
                for x in ast.walk(ast.Module(node.body, [])):
                    tgt = None
                    if isinstance(x, ast.Call) and isinstance(x.func, ast.Attribute) and x.func.attr in self.MUTATORS and isinstance(x.func.value, ast.Name):
                        tgt = x.func.value.id
                    elif isinstance(x, ast.Subscript) and isinstance(x.ctx, ast.Store) and isinstance(x.value, ast.Name):
                        tgt = x.value.id
                    elif isinstance(x, ast.Call) and isinstance(x.func, ast.Name):
                        for a in x.args:
                            if isinstance(a, ast.Name) and isinstance(s.env.get(a.id), (dict, list, set)):
                                s.env[a.id] = unk
                    if tgt and tgt in s.env and not isinstance(s.env[tgt], _Unknown):
                        s.env[tgt] = unk
                return [s], []
            live, after, lefts = [s], [], []
            for item in items:
                nxt = []
                for st_ in live:
                    self._store(node.target, item, st_)
                    f, l = self.block(node.body, [st_])
                    nxt += f
                    for ls, how, v in l:
                        if how == "continue":
                            nxt.append(ls)
                        elif how == "break":
                            after.append(ls)
                        else:
                            lefts.append((ls, how, v))
                live = nxt
                if len(live) + len(after) + len(lefts) > self.limit:
                    raise Unsupported("too many paths on the sample")
                if not live:
                    break
            if node.orelse and live:
                f, l = self.block(node.orelse, live)
                live = f
                lefts += l
            return live + after, lefts
        if isinstance(node, ast.While):
            live, after, lefts = [s], [], []
            for _ in range(65):
                nxt = []
                for st_ in live:
                    t = self.test(node.test, st_)
                    if t is None:
                        self.gap(f"loop condition `{norm(node.test)[:40]}` is not decided by the sample")
                        for nm in _stored_names(node):
                            st_.env[nm] = GAP
                        after.append(st_)
                        continue
                    if not t:
                        after.append(st_)
                        continue
                    f, l = self.block(node.body, [st_])
                    nxt += f
                    for ls, how, v in l:
                        if how == "continue":
                            nxt.append(ls)
                        elif how == "break":
                            after.append(ls)
                        else:
                            lefts.append((ls, how, v))
                live = nxt
                if not live:
                    break
            else:
                raise Unsupported("loop does not end on the sample")
            return after, lefts
        if isinstance(node, ast.Return):
            v = self.ev(node.value, s, "return") if node.value is not None else None
            self._poison(s)
            return [], [(s, "return", v)]
        if isinstance(node, ast.Raise):
            cls = None
            if node.exc is not None:
                cls = norm(node.exc.func if isinstance(node.exc, ast.Call) else node.exc).split(".")[-1]
            return [], [(s, "raise", cls)]
        if isinstance(node, ast.Continue):
            return [], [(s, "continue", None)]
        if isinstance(node, ast.Break):
            return [], [(s, "break", None)]
        if isinstance(node, ast.Assert):
            # an assertion that is false on this sample for sure ends the path in AssertionError; anything else goes on
            t = self.test(node.test, s)
            self._poison(s)
            if t is False:
                return [], [(s, "raise", "AssertionError")]
            return [s], []
        if isinstance(node, (ast.Pass, ast.Import, ast.ImportFrom, ast.Global, ast.Nonlocal)):
            return [s], []
        if isinstance(node, ast.Delete):
            for t_ in node.targets:
                if isinstance(t_, ast.Subscript):
                    obj, k = self.ev(t_.value, s), self.ev(t_.slice, s)
                    try:
                        del obj[k]
                    except (NameError, UnboundLocalError):
                        raise
                    except Exception:
                        pass
                elif isinstance(t_, ast.Name):
                    s.env.pop(t_.id, None)
            return [s], []
        if isinstance(node, ast.Match):
            from .model import desugar_match
            d = desugar_match(node)
            if d is not None:
                return self.stmt(d, s)
        if isinstance(node, ast.Try):
            def handler_for(name):
                for h in node.handlers:
                    if h.type is None:
                        return h
                    names = [norm(t).split(".")[-1] for t in (h.type.elts if isinstance(h.type, ast.Tuple) else [h.type])]
                    if name in names or "Exception" in names or "BaseException" in names \
                            or (name in ("KeyError", "IndexError") and "LookupError" in names) or (name == "ZeroDivisionError" and "ArithmeticError" in names):
                        return h
                return None
            self.try_depth += 1
            try:
                f, l = self.block(node.body, [s])
            except _ProgExc as pex:
                self.try_depth -= 1
                h = handler_for(type(pex.exc).__name__)
                if h is None:
                    if self.try_depth > 0:
                        raise
                    return [], [(s, "raise", type(pex.exc).__name__)]
                if h.name:
                    s.env[h.name] = UNKNOWN
                f, l = self.block(h.body, [s])
            else:
                self.try_depth -= 1
                # explicit raises of the body that a handler of this statement catches
                l_keep = []
                for ls, how, v in l:
                    h = handler_for(v) if how == "raise" and isinstance(v, str) else None
                    if h is not None:
                        if h.name:
                            ls.env[h.name] = UNKNOWN
                        f2, l2 = self.block(h.body, [ls])
                        f += f2
                        l_keep += l2
                    else:
                        if how == "raise" and v is None and node.handlers:
                            self.gap("a raise inside a try statement whose class is not read")
                        l_keep.append((ls, how, v))
                l = l_keep
                if node.orelse and f:
                    f, l2 = self.block(node.orelse, f)
                    l += l2
            if node.finalbody:
                if f:
                    f, l2 = self.block(node.finalbody, f)
                    l += l2
            return f, l
        if isinstance(node, ast.With):
            for it in node.items:
                v = self.ev(it.context_expr, s)
                if it.optional_vars is not None:
                    self._store(it.optional_vars, v, s)
            return self.block(node.body, [s])
        if isinstance(node, ast.Match):
            subj = self.ev(node.subject, s, "match subject")
            self._poison(s)
            if isinstance(subj, _Unknown):
                self.gap(f"`match {norm(node.subject)[:40]}`: the subject is not determined by the sample")
                for nm in _stored_names(node):
                    s.env[nm] = GAP
                return [s], []
            for case in node.cases:
                binds: dict = {}
                try:
                    hit = self._match(case.pattern, subj, binds, s)
                except Unsupported as ex:
                    self.gap(f"`case {norm(case.pattern)[:40]}`: {ex}")
                    for nm in _stored_names(node):
                        s.env[nm] = GAP
                    return [s], []
                if not hit:
                    continue
                s.env.update(binds)
                if case.guard is not None:
                    t = self.test(case.guard, s)
                    if t is None:
                        self.gap(f"guard `{norm(case.guard)[:40]}` is not decided by the sample")
                        return [s], []
                    if not t:
                        continue
                return self.block(case.body, [s])
            return [s], []
        if isinstance(node, ast.FunctionDef) and not node.decorator_list:
            # a local function: followed like the others, seeing the names of the enclosing function as they are now and later
            # (the environment is shared, not copied)
            key = f"<local {node.name} @{node.lineno}>"
            self.calls[key] = (node, s.env)
            s.env[node.name] = _Partial(key, [], self)
            return [s], []
        if isinstance(node, (ast.Import, ast.ImportFrom, ast.Global, ast.Nonlocal)):
            self.gap(f"{type(node).__name__} statement")
            return [s], []
        self.gap(f"{type(node).__name__} statement")
        for nm in _stored_names(node):
            s.env[nm] = GAP
        return [s], []


def _as_load(t):
    import copy
    t2 = copy.deepcopy(t)
    for n in ast.walk(t2):
        if hasattr(n, "ctx"):
            n.ctx = ast.Load()
    return t2


def record_class_of(cls_node: ast.ClassDef, allow_str: bool = False):
    """a namedtuple class with the fields (and constant defaults) of a `class X(NamedTuple)` of the repository, or None"""
    import collections
    if not any(norm(b).endswith("NamedTuple") for b in cls_node.bases):
        return None
    # a record class that redefines what Python looks up implicitly (comparison, text, length, ...) does not behave like the
    # plain tuple it is rebuilt as; only __str__ is bridged (by common.sample_evaluator)
    dunders = {st.name for st in cls_node.body if isinstance(st, ast.FunctionDef) and st.name.startswith("__") and st.name.endswith("__")}
    if dunders - {"__str__"}:
        return None
    if dunders and not allow_str:
        return None
    fields, defaults = [], []
    for st in cls_node.body:
        if isinstance(st, ast.AnnAssign) and isinstance(st.target, ast.Name):
            fields.append(st.target.id)
            if st.value is not None:
                if not isinstance(st.value, ast.Constant):
                    return None
                defaults.append(st.value.value)
            elif defaults:
                return None
    if not fields:
        return None
    return collections.namedtuple(cls_node.name, fields, defaults=defaults or None)


class _NodeData(list):
    """networkx's NodeDataView: iterates as (node, value) pairs, looks a node's value up with [node]"""

    def __getitem__(self, k):
        if isinstance(k, slice):
            raise TypeError("NodeDataView does not support slicing")
        for n, v in self:
            if n == k:
                return v
        raise KeyError(k)


class SampleGraph:
    """a molecule graph for the sample evaluator: the part of the networkx Graph interface that the library's pure-Python code
    uses (nodes / edges with data, counts, neighbours, copy, adding nodes and edges), over plain tables.  Node and edge order
    is insertion order; an edge is reported from the endpoint that was inserted as a node first, as networkx does."""
    __pe_methods__ = ("nodes", "edges", "number_of_nodes", "number_of_edges", "neighbors", "degree", "has_edge", "has_node", "order", "size", "copy",
                      "add_node", "add_nodes_from", "add_edge", "add_edges_from")
    __pe_attrs__ = ("adj",)

    @property
    def adj(self):
        return self._adj

    class _NodeView:
        __pe_methods__ = ("data", "items", "keys", "values", "get")

        def __init__(self, g):
            self.g = g

        def __iter__(self):
            return iter(self.g._nodes)

        def __len__(self):
            return len(self.g._nodes)

        def __getitem__(self, n):
            return self.g._nodes[n]

        def __contains__(self, n):
            return n in self.g._nodes

        def __call__(self, data=False, default=None):
            return self.data(data, default)

        def data(self, data=True, default=None):
            if data is True:
                return _NodeData(list(self.g._nodes.items()))
            if data is False:
                return list(self.g._nodes)
            return _NodeData([(n, d.get(data, default)) for n, d in self.g._nodes.items()])

        def items(self):
            return list(self.g._nodes.items())

        def keys(self):
            return list(self.g._nodes)

        def values(self):
            return list(self.g._nodes.values())

        def get(self, n, default=None):
            return self.g._nodes.get(n, default)

    def __init__(self, nodes: dict | None = None, edges: list | None = None):
        self._nodes = {}
        self._adj = {}
        for n, d in (nodes or {}).items():
            self.add_node(n, **d)
        for a, b, d in (edges or []):
            self.add_edge(a, b, **d)

    def __getattr__(self, name):
        if name == "nodes":
            return SampleGraph._NodeView(self)
        raise AttributeError(name)

    def __iter__(self):
        return iter(self._nodes)

    def __len__(self):
        return len(self._nodes)

    def __contains__(self, n):
        return n in self._nodes

    def __getitem__(self, n):
        return self._adj[n]

    def add_node(self, n, **attr):
        if n not in self._nodes:
            self._nodes[n] = {}
            self._adj[n] = {}
        self._nodes[n].update(attr)

    def add_nodes_from(self, it, **attr):
        for x in it:
            if isinstance(x, tuple) and len(x) == 2 and isinstance(x[1], dict):
                self.add_node(x[0], **{**attr, **x[1]})
            else:
                self.add_node(x, **attr)

    def add_edge(self, a, b, **attr):
        self.add_node(a)
        self.add_node(b)
        d = self._adj[a].get(b, {})
        d.update(attr)
        self._adj[a][b] = d
        self._adj[b][a] = d

    def add_edges_from(self, it, **attr):
        for x in it:
            if len(x) == 3:
                self.add_edge(x[0], x[1], **{**attr, **x[2]})
            else:
                self.add_edge(x[0], x[1], **attr)

    def _edge_list(self):
        seen, out = set(), []
        for a in self._nodes:
            for b, d in self._adj[a].items():
                if (b, a) not in seen:
                    seen.add((a, b))
                    out.append((a, b, d))
        return out

    def edges(self, data=False, default=None):
        if data is True:
            return list(self._edge_list())
        if data is False:
            return [(a, b) for a, b, _d in self._edge_list()]
        return [(a, b, d.get(data, default)) for a, b, d in self._edge_list()]

    def number_of_nodes(self):
        return len(self._nodes)

    def order(self):
        return len(self._nodes)

    def number_of_edges(self):
        return len(self._edge_list())

    def size(self):
        return len(self._edge_list())

    def neighbors(self, n):
        return list(self._adj[n])

    def degree(self, n):
        return len(self._adj[n])

    def has_edge(self, a, b):
        return a in self._adj and b in self._adj[a]

    def has_node(self, n):
        return n in self._nodes

    def copy(self):
        g = SampleGraph()
        for n, d in self._nodes.items():
            g.add_node(n, **d)
        for a, b, d in self._edge_list():
            g.add_edge(a, b, **d)
        return g


class SampleNx:
    """the functions of the `networkx` namespace that the library's pure-Python code calls, over SampleGraph"""
    __pe_methods__ = ("Graph", "relabel_nodes", "set_node_attributes", "get_node_attributes", "set_edge_attributes", "get_edge_attributes",
                      "convert_node_labels_to_integers", "density", "connected_components", "number_connected_components", "is_connected")

    def Graph(self, incoming=None):
        return incoming.copy() if isinstance(incoming, SampleGraph) else SampleGraph()

    def relabel_nodes(self, g, mapping, copy=True):
        if copy is not True:
            raise Unsupported("partial evaluation: relabel_nodes(copy=False) is not modelled")
        f = mapping if callable(mapping) else (lambda n: mapping.get(n, n))
        h = SampleGraph()
        for n, d in g._nodes.items():
            h.add_node(f(n), **d)
        for a, b, d in g._edge_list():
            h.add_edge(f(a), f(b), **d)
        return h

    def convert_node_labels_to_integers(self, g, first_label=0, ordering="default"):
        if ordering != "default":
            raise Unsupported("partial evaluation: convert_node_labels_to_integers ordering")
        return self.relabel_nodes(g, {n: i + first_label for i, n in enumerate(g._nodes)})

    def set_node_attributes(self, g, values, name=None):
        if name is not None:
            if isinstance(values, dict):
                for n, v in values.items():
                    if n in g._nodes:
                        g._nodes[n][name] = v
            else:
                for n in g._nodes:
                    g._nodes[n][name] = values
        else:
            for n, d in values.items():
                if n in g._nodes:
                    g._nodes[n].update(d)

    def get_node_attributes(self, g, name, default=None):
        return {n: d[name] for n, d in g._nodes.items() if name in d}

    def set_edge_attributes(self, g, values, name=None):
        for (a, b), v in (values.items() if isinstance(values, dict) else [((a, b), values) for a, b, _ in g._edge_list()]):
            if g.has_edge(a, b):
                if name is not None:
                    g._adj[a][b][name] = v
                else:
                    g._adj[a][b].update(v)

    def get_edge_attributes(self, g, name):
        return {(a, b): d[name] for a, b, d in g._edge_list() if name in d}

    def density(self, g):
        n, m = len(g._nodes), len(g._edge_list())
        return 0 if n < 2 else 2 * m / (n * (n - 1))

    def connected_components(self, g):
        seen, out = set(), []
        for n in g._nodes:
            if n in seen:
                continue
            comp, work = set(), [n]
            while work:
                x = work.pop()
                if x in comp:
                    continue
                comp.add(x)
                work.extend(g._adj[x])
            seen |= comp
            out.append(comp)
        return out

    def number_connected_components(self, g):
        return len(self.connected_components(g))

    def is_connected(self, g):
        return len(self.connected_components(g)) == 1


class SampleClock:
    """`datetime` for the sample evaluator: now() is a fixed instant"""
    __pe_methods__ = ("now", "strftime", "today", "utcnow")
    __pe_attrs__ = ("datetime",)

    def __init__(self):
        import datetime as _dt
        self._t = _dt.datetime(2001, 2, 3, 4, 5, 6)
        self.datetime = self

    def now(self, tz=None):
        return self._t

    today = utcnow = now


class SampleRandom:
    """`random` for the sample evaluator: one possible outcome of every draw (shuffle rotates the list by one place, by two
    on the next call, ...).  What a rule concludes from it must hold for every outcome of the draws"""
    __pe_methods__ = ("seed", "shuffle", "random", "Random", "sample", "getstate", "setstate")

    def __init__(self):
        self.calls = 0
        self.seen_orders: set = set()

    def seed(self, *a, **k):
        return None

    def shuffle(self, xs):
        self.calls += 1
        if isinstance(xs, list) and len(xs) > 1:
            k = self.calls % len(xs)          # every rotation in turn, the identity among them
            xs[:] = xs[k:] + xs[:k]
            self.seen_orders.add(tuple(map(repr, xs)))

    def sample(self, xs, k):
        xs = list(xs)
        self.shuffle(xs)
        return xs[:k]

    def random(self):
        return 0.5

    def Random(self, *a, **k):
        return self

    def getstate(self):
        return ("state", self.calls)

    def setstate(self, st):
        return None


class SamplePackage:
    """the `tucan` package object for the sample evaluator: only its version string"""
    __pe_attrs__ = ("__version__",)
    __version__ = "9.8.7"
