"""Partial evaluator for small pure expressions (predicates over a token,
affine column arithmetic, validator tests).  It evaluates AST nodes over an
explicit environment with a closed set of operations; nothing from the
repository is imported or called."""
from __future__ import annotations

import ast
import operator

from .model import AnalysisError, norm


class Unsupported(AnalysisError):
    pass


_BIN = {ast.Add: operator.add, ast.Sub: operator.sub, ast.Mult: operator.mul, ast.FloorDiv: operator.floordiv,
        ast.Mod: operator.mod, ast.BitOr: operator.or_, ast.BitAnd: operator.and_}
_CMP = {ast.Eq: operator.eq, ast.NotEq: operator.ne, ast.Lt: operator.lt, ast.LtE: operator.le, ast.Gt: operator.gt,
        ast.GtE: operator.ge, ast.In: lambda a, b: a in b, ast.NotIn: lambda a, b: a not in b,
        ast.Is: operator.is_, ast.IsNot: operator.is_not}
_STR_METHODS = {"startswith", "endswith", "split", "rsplit", "partition", "rpartition", "upper", "lower", "strip", "lstrip",
                "rstrip", "isdigit", "isalpha", "isupper", "find", "index", "count", "replace", "removeprefix", "removesuffix",
                "casefold", "isnumeric", "join", "splitlines", "zfill", "title"}
_LIST_METHODS = {"index", "count", "copy"}
_BUILTINS = {"len": len, "int": int, "str": str, "float": float, "abs": abs, "min": min, "max": max, "range": range,
             "bool": bool, "list": list, "tuple": tuple, "set": set, "sorted": sorted, "any": any, "all": all, "sum": sum,
             "enumerate": enumerate, "zip": zip, "reversed": reversed, "ord": ord, "chr": chr, "repr": repr, "dict": dict,
             "frozenset": frozenset, "round": round}


def ceval(e: ast.AST, env: dict, stubs: dict | None = None):
    """stubs: normalised source text -> value (e.g. 'len(self._atoms)' -> 3)"""
    stubs = stubs or {}
    key = norm(e)
    if key in stubs:
        return stubs[key]
    if isinstance(e, ast.Constant):
        return e.value
    if isinstance(e, ast.Name):
        if e.id in env:
            return env[e.id]
        if e.id in ("True", "False", "None"):
            return {"True": True, "False": False, "None": None}[e.id]
        raise Unsupported(f"partial evaluation: free name {e.id}")
    if isinstance(e, ast.BoolOp):
        if isinstance(e.op, ast.And):
            v = True
            for x in e.values:
                v = ceval(x, env, stubs)
                if not v:
                    return v
            return v
        v = False
        for x in e.values:
            v = ceval(x, env, stubs)
            if v:
                return v
        return v
    if isinstance(e, ast.UnaryOp):
        v = ceval(e.operand, env, stubs)
        if isinstance(e.op, ast.Not):
            return not v
        if isinstance(e.op, ast.USub):
            return -v
        if isinstance(e.op, ast.UAdd):
            return +v
    if isinstance(e, ast.BinOp) and type(e.op) in _BIN:
        return _BIN[type(e.op)](ceval(e.left, env, stubs), ceval(e.right, env, stubs))
    if isinstance(e, ast.Compare):
        left = ceval(e.left, env, stubs)
        for op, c in zip(e.ops, e.comparators):
            right = ceval(c, env, stubs)
            if not _CMP[type(op)](left, right):
                return False
            left = right
        return True
    if isinstance(e, ast.IfExp):
        return ceval(e.body, env, stubs) if ceval(e.test, env, stubs) else ceval(e.orelse, env, stubs)
    if isinstance(e, ast.NamedExpr):
        v = ceval(e.value, env, stubs)
        env[e.target.id] = v
        return v
    if isinstance(e, (ast.Tuple, ast.List, ast.Set)):
        vals = [ceval(x, env, stubs) for x in e.elts]
        return tuple(vals) if isinstance(e, ast.Tuple) else (set(vals) if isinstance(e, ast.Set) else vals)
    if isinstance(e, ast.Dict):
        return {ceval(k, env, stubs): ceval(v, env, stubs) for k, v in zip(e.keys, e.values)}
    if isinstance(e, ast.Subscript):
        b = ceval(e.value, env, stubs)
        if isinstance(e.slice, ast.Slice):
            lo = ceval(e.slice.lower, env, stubs) if e.slice.lower else None
            hi = ceval(e.slice.upper, env, stubs) if e.slice.upper else None
            st = ceval(e.slice.step, env, stubs) if e.slice.step else None
            return b[lo:hi:st]
        return b[ceval(e.slice, env, stubs)]
    if isinstance(e, ast.JoinedStr):
        out = ""
        for p in e.values:
            if isinstance(p, ast.Constant):
                out += p.value
            else:
                spec = ceval(p.format_spec, env, stubs) if p.format_spec is not None else ""
                v = ceval(p.value, env, stubs)
                if p.conversion == 114:
                    v = repr(v)
                elif p.conversion == 115:
                    v = str(v)
                out += format(v, spec)
        return out
    if isinstance(e, ast.Call):
        if e.keywords and not all(k.arg in ("maxsplit", "sep", "start", "key", "reverse") for k in e.keywords):
            raise Unsupported(f"partial evaluation: keyword arguments in `{norm(e)}`")
        kw = {k.arg: ceval(k.value, env, stubs) for k in e.keywords}
        if isinstance(e.func, ast.Name) and e.func.id in _BUILTINS and e.func.id not in env:
            return _BUILTINS[e.func.id](*[ceval(a, env, stubs) for a in e.args], **kw)
        if isinstance(e.func, ast.Attribute):
            recv = ceval(e.func.value, env, stubs)
            m = e.func.attr
            if isinstance(recv, str) and m in _STR_METHODS:
                return getattr(recv, m)(*[ceval(a, env, stubs) for a in e.args], **kw)
            if isinstance(recv, (list, tuple)) and m in _LIST_METHODS:
                return getattr(recv, m)(*[ceval(a, env, stubs) for a in e.args])
            if isinstance(recv, dict) and m in ("get", "keys", "values", "items"):
                return getattr(recv, m)(*[ceval(a, env, stubs) for a in e.args])
        raise Unsupported(f"partial evaluation: call `{norm(e)}`")
    if isinstance(e, (ast.ListComp, ast.GeneratorExp, ast.SetComp)):
        out = []

        def rec(i, env):
            if i == len(e.generators):
                out.append(ceval(e.elt, env, stubs))
                return
            g = e.generators[i]
            for item in ceval(g.iter, env, stubs):
                env2 = dict(env)
                _bind(g.target, item, env2)
                if all(ceval(c, env2, stubs) for c in g.ifs):
                    rec(i + 1, env2)
        rec(0, dict(env))
        return set(out) if isinstance(e, ast.SetComp) else out
    raise Unsupported(f"partial evaluation: {type(e).__name__} `{norm(e)[:60]}`")


def _bind(t, v, env):
    if isinstance(t, ast.Name):
        env[t.id] = v
    elif isinstance(t, (ast.Tuple, ast.List)):
        vals = list(v)
        for a, b in zip(t.elts, vals):
            _bind(a, b, env)
    else:
        raise Unsupported("partial evaluation: binding target")


def run_straightline(stmts, env: dict, stubs: dict | None = None, call_hook=None) -> dict:
    """evaluate simple assignments in order; statements that cannot be evaluated are skipped
    (their targets stay unbound, so any later use raises Unsupported)"""
    for st in stmts:
        if isinstance(st, ast.Assign) and len(st.targets) == 1 and isinstance(st.targets[0], (ast.Name, ast.Tuple)):
            try:
                v = call_hook(st.value, env) if call_hook else NotImplemented
                if v is NotImplemented:
                    v = ceval(st.value, env, stubs)
                _bind(st.targets[0], v, env)
            except (Unsupported, Exception):
                continue
        elif isinstance(st, ast.AnnAssign) and st.value is not None and isinstance(st.target, ast.Name):
            try:
                env[st.target.id] = ceval(st.value, env, stubs)
            except (Unsupported, Exception):
                continue
    return env


class UnknownValue(Exception):
    """a value that the sample does not determine was needed as a truth value"""


class _Unknown:
    def __bool__(self):
        raise UnknownValue()

    def __repr__(self):
        return "<unknown>"

    def __eq__(self, o):
        raise UnknownValue()

    def __hash__(self):
        return 0


UNKNOWN = _Unknown()


class _Leave(Exception):
    def __init__(self, how="leave"):
        self.how = how


def run_outcome(stmts, env: dict, stubs: dict | None = None) -> str:
    """how one pass over the statements ends on concrete values: 'raise', 'return', 'continue', 'break' or 'fall'"""
    try:
        _run(stmts, env, stubs)
    except _Leave as l:
        return l.how
    return "fall"


def _unbind(node, env):
    for n in ast.walk(node):
        if isinstance(n, ast.Name) and isinstance(n.ctx, ast.Store):
            env.pop(n.id, None)


def run_body(stmts, env: dict, stubs: dict | None = None) -> dict:
    """Run one pass over a statement list on concrete values.  Branches are chosen by evaluating their tests (a test that
    cannot be evaluated raises Unsupported: nothing is guessed); calls used as statements are no-ops except add / append /
    update / extend on a container that lives in `env`; a statement that cannot be evaluated unbinds what it would have
    bound.  continue / break / return / raise end the pass."""
    try:
        _run(stmts, env, stubs)
    except _Leave:
        pass
    return env


def _run(stmts, env, stubs):
    for st in stmts:
        if isinstance(st, ast.If):
            try:
                take = bool(ceval(st.test, env, stubs))
            except (Unsupported, UnknownValue):
                # the sample does not decide this test: follow both branches; what they disagree on is unknown afterwards
                e1, e2 = dict(env), dict(env)
                l1 = l2 = None
                try:
                    _run(st.body, e1, stubs)
                except _Leave as l:
                    l1 = l
                try:
                    _run(st.orelse, e2, stubs)
                except _Leave as l:
                    l2 = l
                for k in set(e1) | set(e2):
                    a, b = e1.get(k, UNKNOWN), e2.get(k, UNKNOWN)
                    try:
                        same = (a is b) or (type(a) is type(b) and a == b)
                    except Exception:
                        same = False
                    env[k] = a if same else UNKNOWN
                if l1 is not None and l2 is not None:
                    raise l1
                continue
            _run(st.body if take else st.orelse, env, stubs)
        elif isinstance(st, ast.Assign):
            try:
                v = ceval(st.value, env, stubs)
            except Exception:
                for t in st.targets:
                    _unbind(t, env)
                continue
            for t in st.targets:
                if isinstance(t, (ast.Name, ast.Tuple, ast.List)):
                    try:
                        _bind(t, v, env)
                    except Exception:
                        _unbind(t, env)
        elif isinstance(st, ast.AnnAssign):
            if st.value is not None and isinstance(st.target, ast.Name):
                try:
                    env[st.target.id] = ceval(st.value, env, stubs)
                except Exception:
                    env.pop(st.target.id, None)
        elif isinstance(st, ast.AugAssign):
            if isinstance(st.target, ast.Name):
                try:
                    op = _BIN[type(st.op)]
                    env[st.target.id] = op(env[st.target.id], ceval(st.value, env, stubs))
                except Exception:
                    env.pop(st.target.id, None)
        elif isinstance(st, ast.Expr):
            c = st.value
            if isinstance(c, ast.Call) and isinstance(c.func, ast.Attribute) and isinstance(c.func.value, ast.Name) and c.func.value.id in env \
                    and c.func.attr in ("add", "append", "update", "extend") and len(c.args) == 1:
                box = env[c.func.value.id]
                try:
                    v = ceval(c.args[0], env, stubs)
                    if isinstance(box, (set, list, dict)):
                        box = type(box)(box)          # containers of the initial environment are not shared between passes
                        getattr(box, c.func.attr)(v)
                        env[c.func.value.id] = box
                except Exception:
                    env.pop(c.func.value.id, None)
        elif isinstance(st, ast.For):
            try:
                items = list(ceval(st.iter, env, stubs))
            except Exception:
                _unbind(st, env)
                continue
            if len(items) > 64:
                _unbind(st, env)
                continue
            broke = False
            for it in items:
                try:
                    _bind(st.target, it, env)
                except Exception:
                    _unbind(st, env)
                    break
                try:
                    _run(st.body, env, stubs)
                except _Leave as l:
                    if l.how == "break":
                        broke = True
                        break
                    if l.how == "continue":
                        continue
                    raise
            if not broke and st.orelse:
                _run(st.orelse, env, stubs)
        elif isinstance(st, (ast.Continue, ast.Break, ast.Return, ast.Raise)):
            raise _Leave(type(st).__name__.lower())
        elif isinstance(st, ast.Pass):
            pass
        else:
            _unbind(st, env)
