"""Self-validation of the checkers on source variants (thorough tier) — see variants.py"""
from __future__ import annotations


def run_selfval(prop: str) -> dict:
    try:
        from .variants import run_for_property
    except ImportError:
        return {"summary": "no variant library yet", "variants": [], "disagreements": []}
    return run_for_property(prop)
