"""Generate /verif/MANIFEST.json from props.PROPERTIES (only properties whose rules all exist are claimed)."""
from __future__ import annotations

import json
import pathlib
import subprocess

from .props import PROPERTIES, implemented

VERIF = pathlib.Path(__file__).resolve().parent.parent
PY = "/venv/bin/python"


def fix_commits() -> list[str]:
    return []


def main():
    checks, na = [], []
    for pid, spec in sorted(PROPERTIES.items()):
        have, missing = implemented(pid)
        if missing:
            na.append({"property_id": pid, "reason": f"check under construction: rules {missing} not built yet (DESIGN.md section 10)"})
            continue
        checks.append({
            "property_id": pid,
            "quick_cmd": f"{PY} -m tsa.check {pid} --tier quick",
            "thorough_cmd": f"{PY} -m tsa.check {pid} --tier thorough",
            "evidence_file": f"/verif/evidence/{pid}.json",
            "replay_cmd_template": f"{PY} -m tsa.check {pid} --replay {{path}}",
            "engine": "tsa",
            "level_claimed": {
                "category": "other",
                "text": "static analysis of the current source, all paths: " + spec["explanation"] + " Not decided: " + spec["not_decided"] + ".",
                "design_ref": f"DESIGN.md section 5 ({pid}) and section 4 (rules {', '.join(spec['rules'])})",
            },
            "level_note": "Trusted: " + "; ".join(spec["assumptions"]) + ". Not decided by this check: " + spec["not_decided"] + ".",
            "technique": "static analysis: " + spec["technique"],
        })
    m = {
        "version": 1,
        "setup_cmd": "true",
        "hooks": {
            "guard": "TUCAN_VERIF",
            "enable": "none: the checks are static (ast / grammar files / generated tables as literals) and execute nothing from /repo, so no hook exists",
            "baseline_off_cmd": "/venv/bin/python /verif/tools/baseline.py",
            "source_commits": [],
            "add_only": True,
        },
        "engines": [{"name": "tsa", "path": "/verif/tsa", "serves_properties": [c["property_id"] for c in checks],
                     "kind_free_text": "purpose-built static analyser for TUCAN: program model + call graph + CFG, abstract interpreters (taint, heap/provenance, string shape, index-space types, effects), grammar/ATN automata kit"}],
        "checks": checks,
        "notes": "All checks: /venv/bin/python -m tsa.check <id> --tier quick|thorough, cwd=/verif, TUCAN_REPO overrides /repo. Exit 0 ok, 1 VIOLATION, 2 ANALYSIS-ERROR. "
                 "Known findings: /verif/known_findings.json.",
        "not_applicable": na,
    }
    (VERIF / "MANIFEST.json").write_text(json.dumps(m, indent=1) + "\n")
    print(f"claimed {len(checks)}: {[c['property_id'] for c in checks]}; not yet: {[n['property_id'] for n in na]}")


if __name__ == "__main__":
    main()
