"""Heap-based abstract interpreter used on the two molfile readers (R-ZERO,
R-KILL, R-PROV) — objects have identity, mutation through aliases and
parameters is seen by the caller (weak updates), dictionaries with constant
keys are records tracked per key.

Abstract scalar = set of flags:
  ZERO          the value may be the integer 0 and came from file text or a zero constant
  '@...'        provenance labels: which part of the input the value depends on
                (data and control dependence)
"""
from __future__ import annotations

import ast
from typing import Any, Optional

from .model import ClassInfo, AnalysisError, FuncInfo, NotConst, Repo, norm, short

ZERO = "ZERO"
E: frozenset = frozenset()


class Obj:
    __slots__ = ("kind", "t", "val", "fields", "elem", "items", "site", "keyt")

    def __init__(self, kind, t=E, val=None, site=None):
        self.kind = kind
        self.t = frozenset(t)
        self.val = val
        self.fields: dict[str, Obj] = {}
        self.elem: Optional[Obj] = None
        self.items: Optional[list[Obj]] = None
        self.site = site
        self.keyt = E

    def __repr__(self):
        if self.kind == "rec":
            return "rec{" + ", ".join(f"{k}:{v}" for k, v in self.fields.items()) + "}"
        if self.kind in ("list", "map"):
            return f"{self.kind}<{self.elem}>"
        if self.kind == "tuple":
            return "(" + ", ".join(map(repr, self.items or [])) + ")"
        return f"{self.kind}{sorted(self.t) if self.t else ''}" + (f"={self.val!r}" if self.kind == "const" else "")


def scalar(t=E):
    return Obj("scalar", t)


def string(t=E):
    return Obj("str", t)


def const(v):
    z = isinstance(v, (int, float)) and not isinstance(v, bool) and v == 0
    return Obj("const", {ZERO} if z else E, v)


NONE = lambda: Obj("none")  # noqa: E731


def taint(o: Optional[Obj], _d=0) -> frozenset:
    """all flags inside a value"""
    if o is None or _d > 6:
        return E
    if o.kind in ("scalar", "const", "str", "none", "keyset"):
        return o.t
    r = set(o.t) | set(o.keyt)
    if o.kind == "rec":
        for v in o.fields.values():
            r |= taint(v, _d + 1)
    if o.elem is not None:
        r |= taint(o.elem, _d + 1)
    if o.items:
        for i in o.items:
            r |= taint(i, _d + 1)
    return frozenset(r)


def prov(o: Optional[Obj]) -> frozenset:
    return frozenset(x for x in taint(o) if x != ZERO)


def with_t(o: Obj, extra) -> Obj:
    """copy of an immutable value with more flags; containers are returned as they are"""
    extra = frozenset(extra)
    if not extra or o.kind not in ("scalar", "const", "str", "none", "keyset"):
        return o
    if extra <= o.t:
        return o
    n = Obj(o.kind if o.kind != "none" else "scalar", o.t | extra, o.val)
    if o.kind == "keyset":
        for m_, lab in o.fields.items():
            n.fields[m_] = Obj("scalar", lab.t | extra)
    return n


def joinv(a: Optional[Obj], b: Optional[Obj], _d=0) -> Optional[Obj]:
    if a is None:
        return b
    if b is None:
        return a
    if a is b:
        return a
    if _d > 6:
        return scalar(taint(a) | taint(b))
    if a.kind == b.kind == "rec":
        o = Obj("rec")
        for k in set(a.fields) | set(b.fields):
            o.fields[k] = joinv(a.fields.get(k), b.fields.get(k), _d + 1)
        return o
    if a.kind == b.kind and a.kind in ("list", "map"):
        o = Obj(a.kind)
        o.elem = joinv(a.elem, b.elem, _d + 1)
        o.keyt = a.keyt | b.keyt
        if a.kind == "list" and a.val == b.val == "lines":
            o.val = "lines"
        return o
    if a.kind == b.kind == "tuple" and len(a.items) == len(b.items):
        o = Obj("tuple")
        o.items = [joinv(x, y, _d + 1) for x, y in zip(a.items, b.items)]
        if a.fields and set(a.fields) == set(b.fields) and a.val is b.val:
            # two instances of one NamedTuple class: the names go with the positions
            o.val = a.val
            names = list(a.fields)
            pos = {n: next((i for i, it in enumerate(a.items) if it is a.fields[n]), None) for n in names}
            for n in names:
                o.fields[n] = o.items[pos[n]] if pos[n] is not None else joinv(a.fields[n], b.fields[n], _d + 1)
        return o
    if a.kind == b.kind == "instance" and a.val is b.val:
        o = Obj("instance")
        o.val = a.val
        for k in set(a.fields) | set(b.fields):
            o.fields[k] = joinv(a.fields.get(k), b.fields.get(k), _d + 1)
        return o
    if a.kind in ("none", "emptydict") and b.kind not in ("scalar", "const", "str"):
        return b
    if b.kind in ("none", "emptydict") and a.kind not in ("scalar", "const", "str"):
        return a
    # one of finitely many attribute keys, or None: the key set stays known (None is never used as a key)
    if a.kind == "none" and b.kind == "const" and isinstance(b.val, str):
        o = Obj("keyset", b.t, [b.val])
        o.fields[b.val] = Obj("scalar", b.t)
        return o
    if b.kind == "none" and a.kind == "const" and isinstance(a.val, str):
        o = Obj("keyset", a.t, [a.val])
        o.fields[a.val] = Obj("scalar", a.t)
        return o
    if a.kind == "const" and b.kind == "const" and a.val == b.val:
        return Obj("const", a.t | b.t, a.val)
    if a.kind == "str" and b.kind in ("str", "const", "keyset") and (b.kind != "const" or isinstance(b.val, str)):
        return string(a.t | b.t)
    if b.kind == "str" and a.kind in ("const", "keyset") and (a.kind != "const" or isinstance(a.val, str)):
        return string(a.t | b.t)
    if a.kind in ("const", "keyset") and b.kind in ("const", "keyset"):
        va = [a.val] if a.kind == "const" else list(a.val)
        vb = [b.val] if b.kind == "const" else list(b.val)
        if all(isinstance(x, str) for x in va + vb):
            vals = sorted(set(va + vb))
            if len(vals) <= 8:
                o = Obj("keyset", a.t | b.t, vals)      # one of finitely many constant strings (attribute keys)
                # what each member depends on is kept per member: a key chosen by a test on the line carries that test only
                for src in (a, b):
                    for m_ in ([src.val] if src.kind == "const" else list(src.val)):
                        own = src.fields[m_].t if (src.kind == "keyset" and m_ in src.fields) else src.t
                        prev = o.fields.get(m_)
                        o.fields[m_] = Obj("scalar", (prev.t | own) if prev is not None else own)
                return o
            return string(a.t | b.t)
    return scalar(taint(a) | taint(b))


class Event:
    def __init__(self, kind, key, flags, fi, node, cond_per_item=False, target=None):
        self.kind, self.key, self.flags, self.fi, self.node = kind, key, frozenset(flags), fi, node
        self.cond_per_item = cond_per_item
        self.target = target

    def __repr__(self):
        return f"<{self.kind} {self.key} {sorted(self.flags)} {self.fi.qualname}:{getattr(self.node, 'lineno', '?')}>"


class _Return(Exception):
    pass


def _own_nodes(fn):
    stack = list(ast.iter_child_nodes(fn))
    while stack:
        n = stack.pop()
        yield n
        if isinstance(n, (ast.FunctionDef, ast.AsyncFunctionDef, ast.Lambda)):
            continue
        stack.extend(ast.iter_child_nodes(n))


class Frame:
    def __init__(self, fi: FuncInfo):
        self.fi = fi
        self.ret: Optional[Obj] = None
        self.yields: Optional[Obj] = None       # list of yielded values when the function is a generator
        self.loop_vars: list[set[str]] = []     # names bound by enclosing for-loops in this frame
        self.loop_if_depth: list[int] = []      # number of If statements entered inside the innermost loop


class HeapInterp:
    """`sink_keys`: record keys whose stores are logged.  `repo`: resolved program."""

    MAX_DEPTH = 12

    def __init__(self, repo: Repo, sink_keys=("chg", "mass", "rad", "element_symbol", "atomic_number")):
        self.repo = repo
        self.sink_keys = set(sink_keys)
        self.events: list[Event] = []
        self.notes: list[str] = []
        self.unsummarised: set[str] = set()
        self.stack: list[str] = []
        self.frames: list[Frame] = []
        self.cg = repo.callgraph()
        self.overrides: dict[str, Obj] = {}          # fq -> precomputed result (the callee is not re-analysed)
        self.observed: dict[str, list] = {}          # fq -> argument lists seen at calls (for sinks such as graph_from_molecule)

    # ------------------------------------------------------------------ calls
    def call(self, fi: FuncInfo, args: list[Obj], kwargs: dict[str, Obj] | None = None, pc=E) -> Obj:
        if fi.fq in self.observed:
            self.observed[fi.fq].append((list(args), self.frames[-1].fi if self.frames else None))
        if fi.fq in self.overrides:
            return self.overrides[fi.fq]
        if fi.fq in self.stack or len(self.stack) > self.MAX_DEPTH:
            self.notes.append(f"recursion/depth cut at {fi.fq}")
            return scalar(frozenset().union(*[taint(a) for a in args]) if args else E)
        fn = fi.node
        env: dict[str, Obj] = {}
        params = [a.arg for a in fn.args.posonlyargs + fn.args.args]
        defaults = fn.args.defaults
        for i, p in enumerate(params):
            if i < len(args):
                env[p] = args[i]
            elif kwargs and p in kwargs:
                env[p] = kwargs[p]
            else:
                di = i - (len(params) - len(defaults))
                env[p] = self.ev(defaults[di], {}, pc, fi) if 0 <= di < len(defaults) else scalar()
        for p, d in zip(fn.args.kwonlyargs, fn.args.kw_defaults):
            env[p.arg] = (kwargs or {}).get(p.arg) or (self.ev(d, {}, pc, fi) if d is not None else scalar())
        fr = Frame(fi)
        self.stack.append(fi.fq)
        self.frames.append(fr)
        try:
            self.block(fn.body, env, fr, pc)
        finally:
            self.stack.pop()
            self.frames.pop()
        if fr.yields is not None or any(isinstance(x, (ast.Yield, ast.YieldFrom)) for x in _own_nodes(fn)):
            return fr.yields if fr.yields is not None else Obj("list")
        return fr.ret if fr.ret is not None else NONE()

    # ------------------------------------------------------------------ statements
    def block(self, body, env, fr, pc) -> bool:
        """returns True when every path through the block leaves it (return/raise/break/continue)"""
        for i, st in enumerate(body):
            cases = self._table_cases(st, env, fr.fi)
            if cases:
                # table-driven dispatch  key = TABLE.get(text[:n]):  run the rest of the block once per table row,
                # with the key bound to that row's constant and the text labelled as starting with the row's prefix
                # (plus once for "no row matches")
                outs, all_term = [], True
                for binds in cases:
                    e2 = dict(env)
                    e2.update(binds)
                    self._case_binding = {k: v for k, v in binds.items()}
                    t = False
                    for st2 in body[i:]:
                        if self.stmt(st2, e2, fr, pc, _case=binds if st2 is st else None):
                            t = True
                            break
                    all_term = all_term and t
                    if not t:
                        outs.append(e2)
                if outs:
                    env.clear()
                    for e2 in outs:
                        self._merge_env(env, e2)
                return all_term
            if isinstance(st, ast.If) and i + 1 < len(body) and self._split_depth < 3 and self._selects_constant(st, env):
                # an if/elif chain that picks a constant (key = CHG / key = RAD / ...) for the statements after it:
                # run the rest of the block once per branch so that the constant stays tied to the branch's condition
                return self._split_if(st, body[i + 1:], env, fr, pc)
            if self.stmt(st, env, fr, pc):
                return True
        return False

    _split_depth = 0

    def _selects_constant(self, st: ast.If, env) -> bool:
        per_branch = []
        cur = st
        while True:
            per_branch.append(cur.body)
            if len(cur.orelse) == 1 and isinstance(cur.orelse[0], ast.If):
                cur = cur.orelse[0]
                continue
            if cur.orelse:
                per_branch.append(cur.orelse)
            break
        count: dict[str, int] = {}
        for b in per_branch:
            for x in b:
                if isinstance(x, ast.Assign) and len(x.targets) == 1 and isinstance(x.targets[0], ast.Name) and \
                        (isinstance(x.value, ast.Constant) or (isinstance(x.value, ast.Name) and x.value.id not in env)):
                    count[x.targets[0].id] = count.get(x.targets[0].id, 0) + 1
        return any(c >= 2 for c in count.values())

    def _split_if(self, st: ast.If, rest, env, fr, pc) -> bool:
        fi = fr.fi
        cond = self.ev(st.test, env, pc, fi)
        et, ef = self.refine(st.test, env, pc, fi)
        pc2 = pc | prov(cond)
        self._split_depth += 1
        if fr.loop_if_depth:
            fr.loop_if_depth[-1] += 1
        try:
            tt = self.block(list(st.body) + list(rest), et, fr, pc2 | self._branch_labels(env, et))
            tf = self.block(list(st.orelse) + list(rest), ef, fr, pc2 | self._branch_labels(env, ef))
        finally:
            self._split_depth -= 1
            if fr.loop_if_depth:
                fr.loop_if_depth[-1] -= 1
        if tt and tf:
            return True
        env.clear()
        if not tt:
            self._merge_env(env, et)
        if not tf:
            self._merge_env(env, ef)
        return False

    def _table_cases(self, st, env, fi):
        """[{var: value, text_var: labelled text}, ...] if `st` binds a variable to CONST_TABLE.get(<text>[:n]) / CONST_TABLE[<text>[:n]]"""
        target = value = None
        if isinstance(st, ast.Assign) and len(st.targets) == 1 and isinstance(st.targets[0], ast.Name):
            target, value = st.targets[0].id, st.value
        elif isinstance(st, ast.If):
            if self._walrus_polarity(st.test) is None:
                return None
            for n in ast.walk(st.test):
                if isinstance(n, ast.NamedExpr):
                    target, value = n.target.id, n.value
                    break
        if value is None:
            return None
        tbl = key = None
        if isinstance(value, ast.Call) and isinstance(value.func, ast.Attribute) and value.func.attr == "get" and value.args:
            tbl, key = value.func.value, value.args[0]
        elif isinstance(value, ast.Subscript) and not isinstance(value.slice, ast.Slice):
            tbl, key = value.value, value.slice
        if tbl is None or not isinstance(tbl, ast.Name) or tbl.id in env:
            return None
        if not (isinstance(key, ast.Subscript) and isinstance(key.slice, ast.Slice) and key.slice.lower is None and isinstance(key.value, ast.Name) and key.value.id in env):
            return None
        try:
            table = self.repo.const(fi.module, tbl.id)
        except (NameError, UnboundLocalError):
            raise
        except Exception:
            return None
        if not (isinstance(table, dict) and table and all(isinstance(k, str) for k in table) and len(table) <= 12):
            return None
        text = env[key.value.id]
        if text.kind not in ("str", "const"):
            return None
        cases = []
        for prefix, val in table.items():
            cases.append({target: self.lift(val), key.value.id: Obj("str", text.t | {f"@sw:{prefix}"}), "__case__": True})
        if isinstance(value, ast.Call):
            cases.append({target: NONE(), "__case__": True})
        return cases

    @staticmethod
    def _walrus_polarity(test) -> Optional[bool]:
        """True when the test holds for a found row (`(k := T.get(x))`, `... is not None`), False when it holds for no row
        (`... is None`, `not (...)`); None for any other shape"""
        if isinstance(test, ast.NamedExpr):
            return True
        if isinstance(test, ast.UnaryOp) and isinstance(test.op, ast.Not) and isinstance(test.operand, ast.NamedExpr):
            return False
        if isinstance(test, ast.Compare) and len(test.ops) == 1 and isinstance(test.left, ast.NamedExpr) \
                and isinstance(test.comparators[0], ast.Constant) and test.comparators[0].value is None:
            if isinstance(test.ops[0], (ast.IsNot, ast.NotEq)):
                return True
            if isinstance(test.ops[0], (ast.Is, ast.Eq)):
                return False
        return None

    def stmt(self, st, env, fr, pc, _case=None) -> bool:
        fi = fr.fi
        if _case is not None:
            # the dispatching statement itself: its bound variable is already set for this case
            if isinstance(st, ast.Assign):
                return False
            if isinstance(st, ast.If):
                # evaluate the test with the walrus target pre-bound (do not re-evaluate the lookup)
                tgt = next((n.target.id for n in ast.walk(st.test) if isinstance(n, ast.NamedExpr)), None)
                v = env.get(tgt)
                truthy = v is not None and v.kind != "none"
                if not self._walrus_polarity(st.test):
                    truthy = not truthy
                body = st.body if truthy else st.orelse
                return self.block(body, env, fr, pc)
        if isinstance(st, ast.Expr):
            self.ev(st.value, env, pc, fi)
            return False
        if isinstance(st, (ast.Assign, ast.AnnAssign)):
            if isinstance(st, ast.AnnAssign) and st.value is None:
                return False
            v = self.ev(st.value, env, pc, fi)
            for tg in (st.targets if isinstance(st, ast.Assign) else [st.target]):
                self.assign(tg, v, env, pc, fr, st)
            return False
        if isinstance(st, ast.AugAssign):
            cur = self.ev(st.target, env, pc, fi)
            v = self.ev(st.value, env, pc, fi)
            if isinstance(st.op, ast.BitOr) and cur.kind in ("rec", "emptydict", "map"):
                self.merge_into(cur, v, fr, st, pc)
            elif isinstance(st.op, ast.Add) and cur.kind == "list":
                cur.elem = joinv(cur.elem, v.elem if v.kind == "list" else v)
            else:
                if cur.kind == "str" or (cur.kind == "const" and isinstance(cur.val, str)):
                    self.assign(st.target, string(prov(cur) | prov(v) | pc), env, pc, fr, st)
                else:
                    self.assign(st.target, scalar(prov(cur) | prov(v) | {ZERO} | pc), env, pc, fr, st)
            return False
        if isinstance(st, ast.Return):
            v = self.ev(st.value, env, pc, fi) if st.value is not None else NONE()
            fr.ret = joinv(fr.ret, with_t(v, pc))
            return True
        if isinstance(st, ast.Raise):
            if st.exc is not None:
                self.ev(st.exc, env, pc, fi)
            return True
        if isinstance(st, (ast.Break, ast.Continue)):
            return True
        if isinstance(st, ast.Pass):
            return False
        if isinstance(st, ast.If):
            cond = self.ev(st.test, env, pc, fi)      # walrus targets are bound in env
            if cond.kind == "const" and not cond.t and isinstance(cond.val, bool):
                return self.block(st.body if cond.val else st.orelse, env, fr, pc)      # decided by constants alone
            et, ef = self.refine(st.test, env, pc, fi)
            pc2 = pc | prov(cond)
            if fr.loop_if_depth:
                fr.loop_if_depth[-1] += 1
            # `<expr> != 0` (also as an operand of an `and`) for an expression that is not a plain name: the same expression is
            # non-zero inside the body
            proven = set()
            for t_ in (st.test.values if isinstance(st.test, ast.BoolOp) and isinstance(st.test.op, ast.And) else [st.test]):
                if isinstance(t_, ast.Compare) and len(t_.ops) == 1 and isinstance(t_.ops[0], ast.NotEq) and isinstance(t_.comparators[0], ast.Constant) \
                        and t_.comparators[0].value == 0 and not isinstance(t_.left, (ast.Name, ast.NamedExpr)):
                    root_ = t_.left
                    while isinstance(root_, (ast.Subscript, ast.Attribute, ast.Call)):
                        root_ = root_.func if isinstance(root_, ast.Call) else root_.value
                    base_ = root_.id if isinstance(root_, ast.Name) else None
                    # ... unless the body changes what the expression reads from
                    changed_ = base_ is None or any(
                        (isinstance(y, ast.Name) and y.id == base_ and isinstance(y.ctx, (ast.Store, ast.Del))) or
                        (isinstance(y, ast.Call) and isinstance(y.func, ast.Attribute) and isinstance(y.func.value, ast.Name) and y.func.value.id == base_
                         and y.func.attr in ("pop", "append", "extend", "insert", "remove", "clear", "sort", "reverse", "popleft", "appendleft", "update")) or
                        (isinstance(y, (ast.Subscript,)) and isinstance(y.ctx, (ast.Store, ast.Del)) and isinstance(y.value, ast.Name) and y.value.id == base_)
                        for b_ in st.body for y in ast.walk(b_))
                    if not changed_:
                        proven.add(norm(t_.left))
            if proven:
                if not hasattr(self, "_nonzero_exprs"):
                    self._nonzero_exprs = []
                self._nonzero_exprs.append(proven)
            try:
                self._zero_filter_idiom(st, et, fi)
                try:
                    tt = self.block(st.body, et, fr, pc2 | self._branch_labels(env, et))
                finally:
                    if proven:
                        self._nonzero_exprs.pop()
                tf = self.block(st.orelse, ef, fr, pc2 | self._branch_labels(env, ef))
            finally:
                if fr.loop_if_depth:
                    fr.loop_if_depth[-1] -= 1
            if tt and tf:
                return True
            if tt:
                env.clear(); env.update(ef)
            elif tf:
                env.clear(); env.update(et)
            else:
                keys = set(et) | set(ef)
                merged = {}
                for k in keys:
                    a, b = et.get(k), ef.get(k)
                    m = joinv(a, b)
                    if a is not b and m is not None:
                        m = with_t(m, prov(cond))
                    merged[k] = m
                env.clear(); env.update(merged)
            return False
        if isinstance(st, ast.For):
            it = self.ev(st.iter, env, pc, fi)
            elems = self.iter_elems(it)
            pc2 = pc | frozenset(x for x in it.t if x != ZERO) | (it.keyt if it.kind == "map" else E)
            fr.loop_vars.append({n.id for n in ast.walk(st.target) if isinstance(n, ast.Name)})
            fr.loop_if_depth.append(0)
            self._widen_counters(st, env)
            try:
                for el in elems:
                    for _ in range(2):
                        e2 = dict(env)
                        self.assign(st.target, el, e2, pc2, fr, st)
                        self.block(st.body, e2, fr, pc2)
                        self._merge_env(env, e2)
            finally:
                fr.loop_vars.pop()
                fr.loop_if_depth.pop()
            if st.orelse:
                has_break = _has_break(st.body)
                e_else = dict(env) if has_break else env
                t = self.block(st.orelse, e_else, fr, pc)
                if has_break:
                    if not t:
                        self._merge_env(env, e_else)
                    return False
                return t
            return False
        if isinstance(st, ast.While):
            self._widen_counters(st, env)
            fr.loop_vars.append(set())
            fr.loop_if_depth.append(0)
            try:
                for _ in range(3):
                    cond = self.ev(st.test, env, pc, fi)
                    et, _ = self.refine(st.test, env, pc, fi)
                    self.block(st.body, et, fr, pc | prov(cond))
                    self._merge_env(env, et)
            finally:
                fr.loop_vars.pop()
                fr.loop_if_depth.pop()
            return False
        if isinstance(st, ast.Assert):
            self.ev(st.test, env, pc, fi)
            et, _ = self.refine(st.test, env, pc, fi)
            env.clear(); env.update(et)
            return False
        if isinstance(st, ast.With):
            for it in st.items:
                v = self.ev(it.context_expr, env, pc, fi)
                if it.optional_vars is not None:
                    self.assign(it.optional_vars, v, env, pc, fr, st)
            return self.block(st.body, env, fr, pc)
        if isinstance(st, ast.Try):
            e0 = dict(env)
            t = self.block(st.body, env, fr, pc)
            for h in st.handlers:
                eh = dict(e0)
                if h.name:
                    eh[h.name] = scalar()
                self.block(h.body, eh, fr, pc)
                self._merge_env(env, eh)
            self.block(st.orelse, env, fr, pc)
            self.block(st.finalbody, env, fr, pc)
            return False
        if isinstance(st, ast.Delete):
            for tg in st.targets:
                if isinstance(tg, ast.Subscript):
                    base = self.ev(tg.value, env, pc, fi)
                    key = self.ev(tg.slice, env, pc, fi)
                    self.kill(base, key, fr, st)
            return False
        if isinstance(st, (ast.FunctionDef, ast.ClassDef, ast.Import, ast.ImportFrom, ast.Global, ast.Nonlocal)):
            return False
        if isinstance(st, ast.Match):
            from .model import desugar_match
            d = desugar_match(st)
            if d is not None:
                return self.stmt(d, env, fr, pc)
        raise AnalysisError(f"reader interpreter: statement {type(st).__name__} at {fi.loc(st)} not supported")

    def _widen_counters(self, loop, env):
        """a number that the loop body advances (i += 1, i = i + k) is not the constant it starts from"""
        for n in ast.walk(ast.Module(loop.body, [])):
            name = None
            if isinstance(n, ast.AugAssign) and isinstance(n.target, ast.Name):
                name = n.target.id
            elif isinstance(n, ast.Assign) and len(n.targets) == 1 and isinstance(n.targets[0], ast.Name) and \
                    any(isinstance(x, ast.Name) and x.id == n.targets[0].id for x in ast.walk(n.value)):
                name = n.targets[0].id
            if name and name in env and env[name].kind == "const" and isinstance(env[name].val, (int, float)) and not isinstance(env[name].val, bool):
                env[name] = scalar(env[name].t | {ZERO})

    @staticmethod
    def _branch_labels(env, refined) -> frozenset:
        """what the branch learned about its text values (starts with / equals / contains): everything done in the branch
        is done under that knowledge"""
        out = set()
        for k, v in refined.items():
            old = env.get(k)
            if old is not None and v is not old and v.kind in ("str", "scalar", "const"):
                out |= {x for x in (v.t - old.t) if isinstance(x, str) and x.startswith("@sw:")}
        return frozenset(out)

    def _merge_env(self, env, other):
        for k, v in other.items():
            env[k] = joinv(env.get(k), v) if k in env else v

    def _zero_filter_idiom(self, st: ast.If, env, fi):
        """`if rec.get(K) == 0: del rec[K]` / `if not rec.get(K): rec.pop(K)` — the field loses ZERO"""
        t = st.test
        target = None
        if isinstance(t, ast.Compare) and len(t.ops) == 1 and isinstance(t.ops[0], ast.Eq) and isinstance(t.comparators[0], ast.Constant) and t.comparators[0].value == 0:
            target = t.left
        elif isinstance(t, ast.UnaryOp) and isinstance(t.op, ast.Not):
            target = t.operand
        if target is None:
            return
        base = key = None
        if isinstance(target, ast.Subscript):
            base, key = target.value, target.slice
        elif isinstance(target, ast.Call) and isinstance(target.func, ast.Attribute) and target.func.attr == "get" and target.args:
            base, key = target.func.value, target.args[0]
        if base is None:
            return
        removes = False
        for n in ast.walk(ast.Module(st.body, [])):
            if isinstance(n, ast.Delete) and any(isinstance(x, ast.Subscript) and norm(x.value) == norm(base) and norm(x.slice) == norm(key) for x in n.targets):
                removes = True
            if isinstance(n, ast.Call) and isinstance(n.func, ast.Attribute) and n.func.attr == "pop" and norm(n.func.value) == norm(base) and n.args and norm(n.args[0]) == norm(key):
                removes = True
        if not removes:
            return
        try:
            b = self.ev(base, env, E, fi)
            k = self.ev(key, env, E, fi)
        except AnalysisError:
            return
        for kk in self.keyset(k) or []:
            if b.kind == "rec" and kk in b.fields:
                f = b.fields[kk]
                b.fields[kk] = Obj(f.kind if f.kind != "const" else "scalar", f.t - {ZERO}, f.val) if f.kind in ("scalar", "const") else f
                self.notes.append(f"zero-filter idiom recognised for key {kk} at {fi.loc(st)}")
                self._suppress_kill = (id(st), kk)

    _suppress_kill = None

    # ------------------------------------------------------------------ assignment / stores
    def assign(self, tg, v: Obj, env, pc, fr: Frame, st):
        if isinstance(tg, ast.Name):
            env[tg.id] = with_t(v, pc)
        elif isinstance(tg, (ast.Tuple, ast.List)):
            if v.kind == "tuple" and v.items is not None and len(v.items) == len(tg.elts):
                for e, i in zip(tg.elts, v.items):
                    self.assign(e, i, env, pc, fr, st)
            elif v.kind in ("list", "map") and v.elem is not None:
                for e in tg.elts:
                    self.assign(e, v.elem, env, pc, fr, st)
            else:
                for e in tg.elts:
                    self.assign(e, scalar(taint(v)), env, pc, fr, st)
        elif isinstance(tg, ast.Subscript):
            base = self.ev(tg.value, env, pc, fr.fi)
            key = self.ev(tg.slice, env, pc, fr.fi)
            self.store(base, key, with_t(v, pc), fr, st)
        elif isinstance(tg, ast.Attribute):
            base = self.ev(tg.value, env, pc, fr.fi)
            if base.kind in ("rec", "emptydict", "instance"):
                if base.kind == "emptydict":
                    base.kind = "rec"
                base.fields["." + tg.attr] = joinv(base.fields.get("." + tg.attr), v)
        elif isinstance(tg, ast.Starred):
            self.assign(tg.value, v, env, pc, fr, st)
        else:
            raise AnalysisError(f"reader interpreter: assignment target {type(tg).__name__} at {fr.fi.loc(st)}")

    def keyset(self, key: Obj) -> Optional[list]:
        if key.kind == "const" and isinstance(key.val, (str, int)) and not isinstance(key.val, bool):
            return [key.val] if isinstance(key.val, str) else None
        if key.kind == "keyset":
            return list(key.val)
        return None

    def store(self, base: Obj, key: Obj, v: Obj, fr: Frame, st):
        ks = self.keyset(key)
        if base.kind == "emptydict":
            base.kind = "rec" if ks is not None else "map"
        if base.kind == "rec":
            if ks is None:
                # non-constant key into a record: summarise into every field
                for k in list(base.fields):
                    base.fields[k] = joinv(base.fields[k], v)
                base.fields.setdefault("?", v)
                return
            for k in ks:
                vk = v
                if key.kind == "keyset" and k in key.fields and v.kind in ("scalar", "const", "str", "keyset"):
                    vk = with_t(v, frozenset(x for x in key.fields[k].t if x != ZERO))     # the path on which this very key was chosen
                base.fields[k] = joinv(base.fields.get(k), vk)
                if k in self.sink_keys:
                    self.events.append(Event("store", k, taint(vk), fr.fi, st))
        elif base.kind == "map":
            base.keyt = base.keyt | prov(key)
            self._join_into(base, v)
        elif base.kind == "list":
            base.elem = joinv(base.elem, v)
        elif base.kind in ("scalar", "none", "str", "const", "unknown"):
            pass
        else:
            raise AnalysisError(f"reader interpreter: store into {base.kind} at {fr.fi.loc(st)}")

    def _join_into(self, m: Obj, v: Obj) -> Obj:
        """map / list element summary is a shared object, so later mutation of a retrieved element is seen"""
        if m.elem is None:
            m.elem = v
        elif m.elem.kind == "rec" and v.kind == "rec":
            if m.elem is not v:
                for k, x in v.fields.items():
                    m.elem.fields[k] = joinv(m.elem.fields.get(k), x)
        elif m.elem.kind == "emptydict" and v.kind in ("rec", "emptydict"):
            m.elem = v
        elif v.kind == "emptydict" and m.elem.kind == "rec":
            pass
        else:
            m.elem = joinv(m.elem, v)
        return m.elem

    def merge_into(self, rec: Obj, other: Obj, fr: Frame, st, pc=E):
        if other.kind in ("zip", "enumerate", "tuple") and other.kind != "rec":
            pairs = self.iter_elems(other)
            if all(p_.kind == "tuple" and p_.items is not None and len(p_.items) == 2 for p_ in pairs):
                for p_ in pairs:
                    self.store(rec, p_.items[0], with_t(p_.items[1], pc), fr, st)
                return
            raise AnalysisError(f"reader interpreter: dict update from a sequence whose elements are not pairs at {fr.fi.loc(st)}")
        if other.kind == "list":
            # an iterable of (key, value) pairs
            el = other.elem
            if el is None:
                return
            if el.kind == "tuple" and el.items is not None and len(el.items) == 2:
                self.store(rec, el.items[0], with_t(el.items[1], pc), fr, st)
                return
            raise AnalysisError(f"reader interpreter: dict update from a sequence whose elements are not pairs at {fr.fi.loc(st)}")
        if rec.kind == "emptydict":
            rec.kind = "rec" if other.kind in ("rec", "emptydict") else "map"
        if other.kind == "rec":
            if rec.kind == "rec":
                for k, v in other.fields.items():
                    rec.fields[k] = joinv(rec.fields.get(k), with_t(v, pc))
                    if k in self.sink_keys:
                        self.events.append(Event("store", k, taint(v) | pc, fr.fi, st))
            else:
                for v in other.fields.values():
                    self._join_into(rec, v)
        elif other.kind == "map":
            if rec.kind == "map":
                if other.elem is not None:
                    self._join_into(rec, other.elem)
                rec.keyt |= other.keyt
            elif other.elem is not None:
                for k in list(rec.fields):
                    rec.fields[k] = joinv(rec.fields[k], other.elem)
        elif other.kind in ("none", "emptydict"):
            pass
        elif other.kind in ("scalar", "unknown"):
            for k in list(rec.fields):
                rec.fields[k] = joinv(rec.fields[k], scalar(taint(other)))
        else:
            raise AnalysisError(f"reader interpreter: dict merge with {other.kind} at {fr.fi.loc(st)}")

    def kill(self, base: Obj, key: Obj, fr: Frame, node):
        ks = self.keyset(key) or []
        per_item = bool(fr.loop_if_depth and fr.loop_if_depth[-1] > 0)
        for k in ks:
            if self._suppress_kill and self._suppress_kill[1] == k and per_item:
                continue
            fl = taint(base.fields.get(k)) if base.kind == "rec" else E
            self.events.append(Event("kill", k, fl, fr.fi, node, cond_per_item=per_item, target=base))

    # ------------------------------------------------------------------ guards
    def refine(self, test, env, pc, fi):
        et, ef = dict(env), dict(env)

        def nz(name, e):
            v = e.get(name)
            if v is not None and v.kind in ("scalar", "const"):
                e[name] = Obj("scalar", v.t - {ZERO})

        def label(name, e, lab):
            v = e.get(name)
            if v is not None and v.kind in ("str", "const", "scalar"):
                e[name] = Obj("str" if v.kind != "scalar" else "scalar", v.t | {lab}, None)

        if isinstance(test, ast.Name):
            nz(test.id, et)
        elif isinstance(test, ast.NamedExpr):
            if test.target.id not in env:
                env[test.target.id] = self.ev(test.value, env, pc, fi)
            et, ef = dict(env), dict(env)
            nz(test.target.id, et)
        elif isinstance(test, ast.UnaryOp) and isinstance(test.op, ast.Not):
            a, b = self.refine(test.operand, env, pc, fi)
            return b, a
        elif isinstance(test, ast.BoolOp) and isinstance(test.op, ast.And):
            cur = env
            for v in test.values:
                cur, _ = self.refine(v, cur, pc, fi)
            et = cur
            ef = dict(env)
            for k, v in cur.items():
                if k not in ef:
                    ef[k] = v      # walrus bindings
        elif isinstance(test, ast.BoolOp) and isinstance(test.op, ast.Or):
            cur = env
            for v in test.values:
                _, cur = self.refine(v, cur, pc, fi)
            ef = cur
        elif isinstance(test, ast.Compare) and len(test.ops) == 1:
            l, op, c = test.left, test.ops[0], test.comparators[0]
            if isinstance(l, ast.NamedExpr):
                if l.target.id not in env:
                    env[l.target.id] = self.ev(l.value, env, pc, fi)
                et, ef = dict(env), dict(env)
                l = l.target
            if isinstance(l, ast.Name) and isinstance(c, ast.Constant) and isinstance(c.value, (int, float)) and not isinstance(c.value, bool):
                cv = c.value
                if isinstance(op, ast.NotEq) and cv == 0:
                    nz(l.id, et)
                elif isinstance(op, ast.Eq):
                    if cv == 0:
                        nz(l.id, ef)
                    else:
                        nz(l.id, et)
                elif isinstance(op, ast.Gt) and cv >= 0:
                    nz(l.id, et)
                elif isinstance(op, ast.GtE) and cv > 0:
                    nz(l.id, et)
                elif isinstance(op, ast.Lt) and cv <= 0:
                    nz(l.id, et)
                elif isinstance(op, ast.LtE) and cv < 0:
                    nz(l.id, et)
            elif isinstance(c, ast.Name) and isinstance(l, ast.Constant) and isinstance(op, (ast.In, ast.NotIn)) and isinstance(l.value, str):
                # "CHG" in token
                label(c.id, et if isinstance(op, ast.In) else ef, f"@has:{l.value}")
            elif isinstance(l, ast.Name) and isinstance(c, ast.Constant) and isinstance(c.value, str) and isinstance(op, (ast.Eq, ast.NotEq)):
                label(l.id, et if isinstance(op, ast.Eq) else ef, f"@eq:{c.value}")
            elif isinstance(op, (ast.Eq, ast.NotEq)) and (isinstance(c, ast.Constant) and isinstance(c.value, str) or isinstance(l, ast.Constant) and isinstance(l.value, str)):
                # f(x) == "KW" with x the only variable: the test selects x by that keyword
                cst, other = (c, l) if isinstance(c, ast.Constant) else (l, c)
                vs = {n.id for n in ast.walk(other) if isinstance(n, ast.Name) and n.id in env and env[n.id].kind in ("str", "const")}
                if len(vs) == 1:
                    label(vs.pop(), et if isinstance(op, ast.Eq) else ef, f"@eq:{cst.value}")
        elif isinstance(test, ast.Call) and isinstance(test.func, ast.Attribute) and test.func.attr in ("startswith", "endswith") \
                and isinstance(test.func.value, ast.Name) and test.args:
            cv = None
            if isinstance(test.args[0], ast.Constant):
                cv = test.args[0].value
            else:
                try:
                    a0 = self.ev(test.args[0], dict(env), pc, fi)
                    if a0.kind == "const" and isinstance(a0.val, str):
                        cv = a0.val
                except AnalysisError:
                    cv = None
            if cv is not None:
                lab = ("@sw:" if test.func.attr == "startswith" else "@ew:") + str(cv)
                label(test.func.value.id, et, lab)
        return et, ef

    # ------------------------------------------------------------------ iteration
    def iter_elems(self, it: Obj) -> list[Obj]:
        if it.kind == "rec_items":
            r = it.val
            return [self.mktuple([Obj("const", E, k), v]) for k, v in r.fields.items()] or []
        if it.kind == "rec_values":
            return list(it.val.fields.values())
        if it.kind == "rec_keys" or it.kind == "rec":
            r = it.val if it.kind == "rec_keys" else it
            return [Obj("const", E, k) for k in r.fields]
        if it.kind == "map_items":
            return [self.mktuple([scalar(it.val.keyt), it.val.elem if it.val.elem is not None else Obj("emptydict")])]
        if it.kind == "map_values":
            return [it.val.elem if it.val.elem is not None else Obj("emptydict")]
        if it.kind == "map_keys":
            return [scalar(it.val.keyt)]
        if it.kind == "map":
            return [scalar(it.keyt)]
        if it.kind == "emptydict":
            return []
        if it.kind == "list":
            return [it.elem if it.elem is not None else scalar()]
        if it.kind == "tuple":
            return list(it.items)
        if it.kind in ("str", "keyset") or (it.kind == "const" and isinstance(it.val, str)):
            return [string(it.t)]
        if it.kind in ("scalar", "const", "unknown", "none"):
            return [scalar(it.t - {ZERO})]
        if it.kind in ("file", "path", "regex", "attr", "ext", "instance", "func", "class"):
            return [string(it.t)]       # lines of a file / unknown iterable of text
        if it.kind == "enumerate":
            return [self.mktuple([scalar(), e]) for e in self.iter_elems(it.val)]
        if it.kind == "zip":
            els = [self.iter_elems(x) for x in it.val]
            if any(not e for e in els):
                return []
            fixed = [len(e) for x, e in zip(it.val, els) if x.kind == "tuple"]
            if fixed and len(set(fixed)) == 1 and all(x.kind == "tuple" or len(e) == 1 for x, e in zip(it.val, els)):
                # sequences of known equal length pair up position by position
                n_ = fixed[0]
                return [self.mktuple([e[i] if len(e) == n_ else e[0] for e in els]) for i in range(n_)]
            return [self.mktuple([joinall(e) for e in els])]
        raise AnalysisError(f"reader interpreter: iteration over {it.kind}")

    def mktuple(self, items) -> Obj:
        o = Obj("tuple")
        o.items = list(items)
        return o

    # ------------------------------------------------------------------ expressions
    def ev(self, e, env, pc, fi: FuncInfo) -> Obj:
        m = getattr(self, "e_" + type(e).__name__, None)
        if m is None:
            raise AnalysisError(f"reader interpreter: expression {type(e).__name__} at {fi.loc(e)} not supported")
        v = m(e, env, pc, fi)
        nz = getattr(self, "_nonzero_exprs", None)
        if nz and isinstance(e, (ast.Subscript, ast.Attribute, ast.Call)) and v is not None and v.kind in ("scalar", "const") and ZERO in v.t and any(norm(e) in s_ for s_ in nz):
            # the same expression was just found different from 0 by the filter of the comprehension that is being evaluated
            v = Obj("scalar", v.t - {ZERO})
        return v

    def lift(self, v: Any, depth=0) -> Obj:
        """python constant -> abstract value"""
        if isinstance(v, dict):
            if v and all(isinstance(k, str) for k in v) and depth > 0 or (v and all(isinstance(k, str) for k in v) and len(v) <= 12):
                o = Obj("rec")
                for k, x in v.items():
                    o.fields[k] = self.lift(x, depth + 1)
                return o
            o = Obj("map")
            o.val = v
            for x in v.values():
                lx = self.lift(x, depth + 1)
                if o.elem is None:
                    o.elem = lx
                elif o.elem.kind == "rec" and lx.kind == "rec":
                    n = Obj("rec")
                    for k in set(o.elem.fields) | set(lx.fields):
                        n.fields[k] = joinv(o.elem.fields.get(k), lx.fields.get(k))
                    o.elem = n
                else:
                    o.elem = joinv(o.elem, lx)
            return o
        if isinstance(v, (list, tuple, set, frozenset)):
            if isinstance(v, (set, frozenset, list)) and 0 < len(v) <= 8 and all(isinstance(x, str) for x in v):
                o = self.mktuple([self.lift(x, depth + 1) for x in sorted(v)])      # iterated element by element (precise per key)
                if isinstance(v, (set, frozenset)):
                    o.t = o.t | {"@setorder"}
                return o
            if isinstance(v, tuple) and len(v) <= 8:
                return self.mktuple([self.lift(x, depth + 1) for x in v])
            o = Obj("list")
            for x in v:
                o.elem = joinv(o.elem, self.lift(x, depth + 1))
            return o
        if isinstance(v, str):
            return Obj("const", E, v)
        from .model import ConstInst
        if isinstance(v, ConstInst):
            # an instance of a value class met in a constant table
            items = [self.lift(x, depth + 1) for x in v.fields.values()]
            bases = self.repo.base_names(v.ci)
            o = self.mktuple(items) if any(b.split(".")[-1] == "NamedTuple" for b in bases) else Obj("instance")
            o.val = v.ci
            for n, it in zip(v.fields, items):
                o.fields["." + n] = it
            return o
        if v is None:
            return NONE()
        return const(v)

    def e_Constant(self, e, env, pc, fi):
        if e.value is None:
            return NONE()
        return const(e.value) if not isinstance(e.value, str) else Obj("const", E, e.value)

    def e_Name(self, e, env, pc, fi):
        if e.id not in env:
            r0 = self.repo.resolve(fi.module, e.id)
            if r0 and r0[0] == "class":
                o = Obj("class")
                o.val = r0[1]
                return o
        if e.id in env:
            return env[e.id]
        r = self.repo.resolve(fi.module, e.id)
        if r is not None:
            if r[0] == "const":
                try:
                    return self.lift(self.repo.const(r[1], r[2]))
                except NotConst:
                    v = r[1].assigns.get(r[2])
                    if isinstance(v, ast.Call):
                        rr = self.repo.resolve_dotted(r[1], v.func)
                        if rr and rr[0] == "ext" and rr[1] == "re.compile":
                            return Obj("regex")
                    self.notes.append(f"module object {e.id} is not a constant")
                    return scalar()
            if r[0] == "func":
                return Obj("func", val=r[1])
            if r[0] == "class":
                return Obj("class", val=r[1])
            if r[0] in ("ext", "extmod", "mod", "builtin"):
                return Obj("ext", val=r)
        if e.id in ("True", "False", "None"):
            return NONE()
        raise AnalysisError(f"reader interpreter: unbound name {e.id} at {fi.loc(e)}")

    def e_Tuple(self, e, env, pc, fi):
        items = []
        for x in e.elts:
            if isinstance(x, ast.Starred):
                v = self.ev(x.value, env, pc, fi)
                if v.kind == "tuple" and v.items is not None:
                    items.extend(v.items)
                    continue
                # unknown length: the tuple degrades to a sequence of the join of its parts
                o = Obj("list", site=id(e))
                for y in e.elts:
                    w = self.ev(y.value if isinstance(y, ast.Starred) else y, env, pc, fi)
                    o.elem = joinv(o.elem, w.elem if isinstance(y, ast.Starred) and w.kind == "list" and w.elem is not None else w)
                return o
            items.append(self.ev(x, env, pc, fi))
        return self.mktuple(items)

    def e_List(self, e, env, pc, fi):
        o = Obj("list", site=id(e))
        for x in e.elts:
            v = self.ev(x.value if isinstance(x, ast.Starred) else x, env, pc, fi)
            o.elem = joinv(o.elem, v.elem if isinstance(x, ast.Starred) and v.kind == "list" else v)
        return o

    e_Set = e_List

    def e_Dict(self, e, env, pc, fi):
        if not e.keys:
            return Obj("emptydict", site=id(e))
        keys = [self.ev(k, env, pc, fi) if k is not None else None for k in e.keys]
        spread = {i: self.ev(v, env, pc, fi) for i, (k, v) in enumerate(zip(keys, e.values)) if k is None}
        if all((k is not None and self.keyset(k) is not None) or (k is None and spread[i].kind in ("rec", "emptydict", "none")) for i, k in enumerate(keys)):
            o = Obj("rec", site=id(e))
            for i, (k, v) in enumerate(zip(keys, e.values)):
                if k is None:
                    # {**other}: the other record's fields are copied in
                    src = spread[i]
                    if src.kind == "rec":
                        for kk, val in src.fields.items():
                            val = with_t(val, pc)
                            o.fields[kk] = joinv(o.fields.get(kk), val)
                            if kk in self.sink_keys and self.frames and val.kind in ("scalar", "const", "str"):
                                self.events.append(Event("store", kk, taint(val), self.frames[-1].fi, e))
                    continue
                val0 = with_t(self.ev(v, env, pc, fi), pc)
                for kk in self.keyset(k):
                    val = val0
                    if k.kind == "keyset" and kk in k.fields and val0.kind in ("scalar", "const", "str", "keyset"):
                        val = with_t(val0, frozenset(x for x in k.fields[kk].t if x != ZERO))
                    o.fields[kk] = joinv(o.fields.get(kk), val)
                    if kk in self.sink_keys and self.frames and val.kind in ("scalar", "const", "str"):
                        self.events.append(Event("store", kk, taint(val), self.frames[-1].fi, e))
            return o
        o = Obj("map", site=id(e))
        for k, v in zip(keys, e.values):
            val = self.ev(v, env, pc, fi)
            if k is None:
                if val.kind == "rec":
                    for x in val.fields.values():
                        self._join_into(o, x)
                elif val.elem is not None:
                    self._join_into(o, val.elem)
                continue
            o.keyt |= prov(k)
            self._join_into(o, val)
        return o

    def e_IfExp(self, e, env, pc, fi):
        cond = self.ev(e.test, env, pc, fi)
        et, ef = self.refine(e.test, env, pc, fi)
        a = self.ev(e.body, et, pc, fi)
        b = self.ev(e.orelse, ef, pc, fi)
        r = joinv(a, b)
        return with_t(r, prov(cond))

    def e_NamedExpr(self, e, env, pc, fi):
        v = self.ev(e.value, env, pc, fi)
        env[e.target.id] = v
        return v

    def e_BinOp(self, e, env, pc, fi):
        a, b = self.ev(e.left, env, pc, fi), self.ev(e.right, env, pc, fi)
        if a.kind == "const" and b.kind == "const":
            try:
                import operator
                ops = {ast.Add: operator.add, ast.Sub: operator.sub, ast.Mult: operator.mul, ast.FloorDiv: operator.floordiv, ast.Mod: operator.mod}
                f = ops.get(type(e.op))
                if f and not isinstance(a.val, (dict, list)) and not isinstance(b.val, (dict, list)):
                    r = f(a.val, b.val)
                    return Obj("const", ({ZERO} if (isinstance(r, (int, float)) and r == 0) else set()) | prov(a) | prov(b), r)
            except (NameError, UnboundLocalError):
                raise
            except Exception:
                pass
        if isinstance(e.op, ast.Add) and (a.kind == "str" or b.kind == "str" or (a.kind == "const" and isinstance(a.val, str))):
            return string(prov(a) | prov(b))
        if isinstance(e.op, ast.Add) and a.kind == "list" and b.kind == "list":
            o = Obj("list")
            o.elem = joinv(a.elem, b.elem)
            return o
        if isinstance(e.op, ast.BitOr) and a.kind in ("rec", "emptydict") and b.kind in ("rec", "emptydict"):
            o = Obj("rec")
            for src in (a, b):
                for k, v in src.fields.items():
                    o.fields[k] = joinv(o.fields.get(k), v)
            return o
        if isinstance(e.op, ast.Mult) and (a.kind in ("str", "list") or b.kind in ("str", "list")):
            return a if a.kind in ("str", "list") else b
        if isinstance(e.op, ast.Mod) and (a.kind == "str" or (a.kind == "const" and isinstance(a.val, str))):
            return string(prov(a) | prov(b))
        return scalar(prov(a) | prov(b) | {ZERO})

    def e_UnaryOp(self, e, env, pc, fi):
        v = self.ev(e.operand, env, pc, fi)
        if isinstance(e.op, ast.Not):
            return scalar(prov(v))
        if v.kind == "const" and isinstance(e.op, ast.USub) and isinstance(v.val, (int, float)):
            return const(-v.val)
        return scalar(taint(v))

    def e_BoolOp(self, e, env, pc, fi):
        r = None
        cur = env
        for x in e.values:
            v = self.ev(x, cur, pc, fi)
            r = joinv(r, v)
            if v.kind == "const" and not prov(v) and isinstance(v.val, (bool, int, str, type(None))) and bool(v.val) == isinstance(e.op, ast.Or):
                break       # short circuit on a constant operand: the remaining operands are not evaluated
            if isinstance(e.op, ast.And):
                cur, _ = self.refine(x, cur, pc, fi)
            else:
                _, cur = self.refine(x, cur, pc, fi)
        # walrus targets bound while evaluating later operands are visible to the caller (fresh values)
        for n in ast.walk(e):
            if isinstance(n, ast.NamedExpr) and n.target.id in cur:
                env[n.target.id] = cur[n.target.id]
        return r

    def e_Compare(self, e, env, pc, fi):
        left = self.ev(e.left, env, pc, fi)
        if len(e.ops) == 1 and isinstance(e.ops[0], (ast.Is, ast.IsNot)) and isinstance(e.comparators[0], ast.Constant) and e.comparators[0].value is None:
            # `x is None` on a value that is certainly None / certainly an object
            if left.kind == "none":
                return Obj("const", E, isinstance(e.ops[0], ast.Is))
            if left.kind in ("tuple", "rec", "list", "map", "instance", "func", "class", "str") or (left.kind == "const" and left.val is not None and not left.t):
                return Obj("const", E, isinstance(e.ops[0], ast.IsNot))
        if len(e.ops) == 1 and isinstance(e.ops[0], (ast.Eq, ast.NotEq)) and left.kind == "const" and not left.t:
            right = self.ev(e.comparators[0], env, pc, fi)
            if right.kind == "const" and not right.t and isinstance(left.val, (str, int, bool, type(None))) and isinstance(right.val, (str, int, bool, type(None))):
                return Obj("const", E, (left.val == right.val) == isinstance(e.ops[0], ast.Eq))
        t = set(prov(left))
        for op, c in zip(e.ops, e.comparators):
            v = self.ev(c, env, pc, fi)
            if isinstance(op, (ast.In, ast.NotIn)) and v.kind in ("map", "rec", "emptydict", "list", "tuple"):
                pass                 # membership in a container: provenance of the tested value only
            else:
                t |= prov(v)
        return scalar(t)

    def e_JoinedStr(self, e, env, pc, fi):
        t = set()
        parts = []
        for p in e.values:
            if isinstance(p, ast.FormattedValue):
                v = self.ev(p.value, env, pc, fi)
                t |= prov(v)
                if v.kind == "const" and isinstance(v.val, (str, int)) and not isinstance(v.val, bool) and p.format_spec is None and p.conversion == -1 and parts is not None:
                    parts.append(str(v.val))
                else:
                    parts = None
            elif parts is not None:
                parts.append(p.value)
        if parts is not None:
            return Obj("const", t, "".join(parts))       # every piece is a constant: fold
        return string(t)

    def e_FormattedValue(self, e, env, pc, fi):
        return string(prov(self.ev(e.value, env, pc, fi)))

    def e_Yield(self, e, env, pc, fi):
        fr = self.frames[-1]
        v = self.ev(e.value, env, pc, fi) if e.value is not None else NONE()
        if fr.yields is None:
            fr.yields = Obj("list")
        fr.yields.elem = joinv(fr.yields.elem, with_t(v, pc))
        return NONE()

    def e_YieldFrom(self, e, env, pc, fi):
        fr = self.frames[-1]
        v = self.ev(e.value, env, pc, fi)
        if fr.yields is None:
            fr.yields = Obj("list")
        for el in self.iter_elems(v):
            fr.yields.elem = joinv(fr.yields.elem, with_t(el, pc))
        if v.kind == "list" and v.val == "lines":
            fr.yields.val = "lines"
        return NONE()

    def e_Lambda(self, e, env, pc, fi):
        o = Obj("lambda")
        o.val = (e, dict(env))
        return o

    def e_Starred(self, e, env, pc, fi):
        return self.ev(e.value, env, pc, fi)

    def e_Slice(self, e, env, pc, fi):
        t = set()
        for x in (e.lower, e.upper, e.step):
            if x is not None:
                t |= prov(self.ev(x, env, pc, fi))
        return scalar(t)

    def e_Subscript(self, e, env, pc, fi):
        b = self.ev(e.value, env, pc, fi)
        if isinstance(e.slice, ast.Slice):
            st = self.e_Slice(e.slice, env, pc, fi)
            if b.kind == "str" or (b.kind == "const" and isinstance(b.val, str)):
                return string(prov(b) | prov(st) | {f"@col[{norm(e.slice)}]"})
            if b.kind == "list":
                o = Obj("list")
                o.elem = b.elem
                o.t = b.t           # which rows are selected is structure, not value provenance
                o.val = "lines" if b.val == "lines" else None
                if b.val is None and b.elem is not None and b.elem.kind in ("str", "scalar") and not any(x.startswith("@idx") for x in b.t):
                    # a run of tokens of one line: its elements are those tokens
                    o.elem = with_t(b.elem, {f"@toks[{norm(e.slice)}]"})
                return o
            if b.kind == "tuple":
                o = Obj("list")
                for i in b.items:
                    o.elem = joinv(o.elem, i)
                return o
            return scalar(taint(b) | prov(st))
        k = self.ev(e.slice, env, pc, fi)
        kp = prov(k)
        if k.kind == "const" and isinstance(k.val, slice) and k.val.step is None and (b.kind == "str" or (b.kind == "const" and isinstance(b.val, str))):
            # a named column range:  line[_X_COLS]  with  _X_COLS = slice(0, 10)
            lo = "" if k.val.start is None else k.val.start
            hi = "" if k.val.stop is None else k.val.stop
            return string(prov(b) | {f"@col[{lo}:{hi}]"})
        if (k.kind == "const" and isinstance(k.val, slice) or k.kind == "sliceobj") and b.kind == "list":
            o = Obj("list")
            o.elem, o.t = b.elem, b.t           # which rows are selected is structure, not value provenance
            o.val = "lines" if b.val == "lines" else None
            return o
        if k.kind == "sliceobj" and (b.kind == "str" or (b.kind == "const" and isinstance(b.val, str))):
            sv = k.val
            lab = f"{'' if sv is None or sv.start is None else sv.start}:{'' if sv is None or sv.stop is None else sv.stop}" if isinstance(sv, slice) else norm(e.slice)
            return string(prov(b) | prov(k) | {f"@col[{lab}]"})
        if b.kind == "rec":
            ks = self.keyset(k)
            r = None
            if ks is None:
                for v in b.fields.values():
                    r = joinv(r, v)
            else:
                for kk in ks:
                    r = joinv(r, b.fields.get(kk))
            return with_t(r, kp) if r is not None else scalar(kp)
        if b.kind == "map":
            if b.val is not None and k.kind == "const":
                try:
                    return with_t(self.lift(b.val[k.val], 1), kp)
                except (NameError, UnboundLocalError):
                    raise
                except Exception:
                    pass
            if b.elem is None:
                b.elem = Obj("emptydict")
            if b.val is not None and b.elem.kind == "rec" and kp:
                # constant table indexed by a computed key: the selected row depends on the key
                o = Obj("rec")
                for kk, v in b.elem.fields.items():
                    o.fields[kk] = with_t(v, kp) if v.kind in ("scalar", "const", "str") else v
                return o
            return with_t(b.elem, kp | b.keyt) if b.elem.kind in ("scalar", "const", "str") else b.elem
        if b.kind == "emptydict":
            b.kind = "map"
            b.elem = Obj("emptydict")
            return b.elem
        if b.kind == "list":
            el = b.elem if b.elem is not None else scalar()
            # selecting a line of the input line list is a different thing from selecting a token of a line
            what = "@part" if b.val == "split" else "@line" if b.val == "lines" else "@idx"
            lab = f"{what}[{k.val}]" if k.kind == "const" else f"{what}[{norm(e.slice)}]"
            if el.kind in ("str", "scalar", "const"):
                return with_t(el, kp | b.t | {lab})
            if el.kind == "list" and not any(x.startswith("@idx") for x in el.t):
                # a row of a table of rows: remember which row through the row's own flags
                o = Obj("list")
                o.elem = el.elem
                o.t = el.t | {lab.replace("@idx", "@row")}
                return o
            return el
        if b.kind == "tuple":
            if k.kind == "const" and isinstance(k.val, int) and -len(b.items) <= k.val < len(b.items):
                return b.items[k.val]
            r = None
            for i in b.items:
                r = joinv(r, i)
            return with_t(r, kp) if r is not None else scalar(kp)
        if b.kind == "str" or (b.kind == "const" and isinstance(b.val, str)):
            return string(prov(b) | kp | {f"@col[{norm(e.slice)}]"})
        return scalar(taint(b) | kp)

    def e_Attribute(self, e, env, pc, fi):
        r = self.repo.resolve_dotted(fi.module, e) if isinstance(e.value, (ast.Name, ast.Attribute)) and not (isinstance(e.value, ast.Name) and e.value.id in env) else None
        if r is not None:
            if r[0] == "const":
                try:
                    return self.lift(self.repo.const(r[1], r[2]))
                except NotConst:
                    return scalar()
            if r[0] == "func":
                return Obj("func", val=r[1])
            if r[0] == "ext":
                return Obj("ext", val=r)
        if r is not None and r[0] == "class":
            o = Obj("class")
            o.val = r[1]
            return o
        b = self.ev(e.value, env, pc, fi)
        if b.kind in ("rec", "instance", "tuple") and ("." + e.attr) in b.fields:
            return b.fields["." + e.attr]
        if b.kind in ("instance", "tuple") and isinstance(b.val, ClassInfo):
            m = self.repo.mro_method(b.val, e.attr)
            if m is not None and any(norm(d).split(".")[-1] in ("property", "cached_property") for d in m.node.decorator_list):
                return self.call(m, [b], {}, pc)
            if m is not None:
                o = Obj("func", val=m)
                o.fields["self"] = b
                return o
            # a class-level constant read through the instance
            for st_ in b.val.node.body:
                tg_ = st_.targets[0] if isinstance(st_, ast.Assign) and len(st_.targets) == 1 else (st_.target if isinstance(st_, ast.AnnAssign) else None)
                if isinstance(tg_, ast.Name) and tg_.id == e.attr and getattr(st_, "value", None) is not None:
                    return self.ev(st_.value, {}, pc, fi)
        o = Obj("attr")
        o.val = (b, e.attr)
        return o

    def _comp(self, e, env, pc, fi, emit):
        def rec(i, env, pc):
            if i == len(e.generators):
                emit(env, pc)
                return
            g = e.generators[i]
            it = self.ev(g.iter, env, pc, fi)
            pc2 = pc | frozenset(x for x in it.t if x != ZERO)
            for el in self.iter_elems(it):
                env2 = dict(env)
                fr = self.frames[-1] if self.frames else Frame(fi)
                self.assign(g.target, el, env2, E, fr, e)
                cur = env2
                pc3 = pc2
                proven = set()
                for c in g.ifs:
                    cv = self.ev(c, cur, pc3, fi)
                    pc3 = pc3 | prov(cv)
                    cur, _ = self.refine(c, cur, pc3, fi)
                    # `<expr> != 0` (also as the last operand of an `and`) for an expression that is not a plain name
                    for t_ in (c.values if isinstance(c, ast.BoolOp) and isinstance(c.op, ast.And) else [c]):
                        if isinstance(t_, ast.Compare) and len(t_.ops) == 1 and isinstance(t_.ops[0], ast.NotEq) and isinstance(t_.comparators[0], ast.Constant) \
                                and t_.comparators[0].value == 0 and not isinstance(t_.left, (ast.Name, ast.NamedExpr)):
                            proven.add(norm(t_.left))
                if proven:
                    if not hasattr(self, "_nonzero_exprs"):
                        self._nonzero_exprs = []
                    self._nonzero_exprs.append(proven)
                    try:
                        rec(i + 1, cur, pc3)
                    finally:
                        self._nonzero_exprs.pop()
                else:
                    rec(i + 1, cur, pc3)
        rec(0, dict(env), pc)

    def e_ListComp(self, e, env, pc, fi):
        out = Obj("list", site=id(e))

        def emit(en, pc2):
            out.elem = joinv(out.elem, with_t(self.ev(e.elt, en, pc2, fi), pc2 - pc))
        self._comp(e, env, pc, fi, emit)
        return out

    e_GeneratorExp = e_ListComp
    e_SetComp = e_ListComp

    def e_DictComp(self, e, env, pc, fi):
        out = Obj("emptydict", site=id(e))

        def emit(en, pc2):
            k = self.ev(e.key, en, pc2, fi)
            v = self.ev(e.value, en, pc2, fi)
            fr = self.frames[-1] if self.frames else Frame(fi)
            self.store(out, k, with_t(v, pc2 - pc), fr, e)
        self._comp(e, env, pc, fi, emit)
        return out

    # ------------------------------------------------------------------ calls
    def e_Call(self, e, env, pc, fi):
        f = e.func
        args = []
        for a in e.args:
            v = self.ev(a.value if isinstance(a, ast.Starred) else a, env, pc, fi)
            if isinstance(a, ast.Starred) and v.kind == "tuple" and v.items is not None:
                args.extend(v.items)          # f(*pair)
            else:
                args.append(v)
        kwargs = {k.arg: self.ev(k.value, env, pc, fi) for k in e.keywords if k.arg}
        if isinstance(f, ast.Name) and f.id not in env:
            r = self.repo.resolve(fi.module, f.id)
            if r and r[0] == "func":
                return self.call(r[1], args, kwargs, pc)
            if r and r[0] == "class":
                return self.ctor(r[1], args, kwargs, pc, e, fi)
            if r and r[0] == "builtin":
                return self.builtin(r[1], args, kwargs, e, env, pc, fi)
            if r and r[0] == "ext":
                return self.ext(r[1], args, kwargs, e, pc, fi)
        if isinstance(f, ast.Name) and f.id in env:
            return self.call_value(env[f.id], args, kwargs, pc, e, fi)
        if isinstance(f, ast.Attribute):
            r = None
            if isinstance(f.value, (ast.Name, ast.Attribute)) and not (isinstance(f.value, ast.Name) and f.value.id in env):
                r = self.repo.resolve_dotted(fi.module, f)
            if r and r[0] == "func":
                if r[1].cls is not None and any(norm(d).split(".")[-1] == "classmethod" for d in r[1].node.decorator_list):
                    c = Obj("class")
                    c.val = r[1].cls
                    return self.call(r[1], [c] + args, kwargs, pc)
                return self.call(r[1], args, kwargs, pc)
            if r and r[0] == "class":
                return self.ctor(r[1], args, kwargs, pc, e, fi)
            if r and r[0] == "ext":
                return self.ext(r[1], args, kwargs, e, pc, fi)
            recv = self.ev(f.value, env, pc, fi)
            return self.method(recv, f.attr, args, kwargs, e, env, pc, fi)
        if isinstance(f, (ast.Call, ast.Subscript, ast.Lambda, ast.IfExp)):
            return self.call_value(self.ev(f, env, pc, fi), args, kwargs, pc, e, fi)
        raise AnalysisError(f"reader interpreter: call `{short(e)}` at {fi.loc(e)} not resolved")

    def call_value(self, fv: Obj, args, kwargs, pc, e, fi):
        """call of something held in a variable: a tucan function (possibly with arguments bound by partial or to an
        instance), a class, a lambda"""
        if fv.kind == "func" and isinstance(fv.val, FuncInfo):
            pre = list(fv.fields.get("args", Obj("tuple")).items or []) if "args" in fv.fields else []
            if "self" in fv.fields:
                pre = [fv.fields["self"]] + pre
            kw = dict(fv.fields.get("kwargs").fields) if "kwargs" in fv.fields else {}
            kw.update(kwargs)
            return self.call(fv.val, pre + list(args), kw, pc)
        if fv.kind == "class":
            return self.ctor(fv.val, args, kwargs, pc, e, fi)
        if fv.kind == "lambda":
            lam, cenv = fv.val
            env2 = dict(cenv)
            for p_, a_ in zip(lam.args.args, args):
                env2[p_.arg] = a_
            return self.ev(lam.body, env2, pc, fi)
        if fv.kind == "ext" and fv.val and fv.val[0] == "ext":
            return self.ext(fv.val[1], args, kwargs, e, pc, fi)
        if fv.kind == "builtin":
            return self.builtin(fv.val, args, kwargs, e, {}, pc, fi)
        return scalar(frozenset().union(*[taint(a) for a in args]) if args else E)

    def ctor(self, ci, args, kwargs, pc, e, fi):
        bases = self.repo.base_names(ci)
        decos = [norm(d).split("(")[0].split(".")[-1] for d in ci.node.decorator_list]
        is_nt = any(b.split(".")[-1] == "NamedTuple" for b in bases)
        if (is_nt or "dataclass" in decos) and self.repo.mro_method(ci, "__init__") is None:
            names = [st.target.id for st in ci.node.body if isinstance(st, ast.AnnAssign) and isinstance(st.target, ast.Name)]
            defaults = {st.target.id: st.value for st in ci.node.body if isinstance(st, ast.AnnAssign) and isinstance(st.target, ast.Name) and st.value is not None}
            vals = []
            for i, n in enumerate(names):
                if i < len(args):
                    vals.append(args[i])
                elif n in kwargs:
                    vals.append(kwargs[n])
                elif n in defaults:
                    vals.append(self.ev(defaults[n], {}, pc, fi))
                else:
                    vals.append(scalar())
            # a NamedTuple is a tuple (unpackable, indexable) whose items also have names; a dataclass has the names only
            o = self.mktuple(vals) if is_nt else Obj("instance")
            o.val = ci
            for n, v in zip(names, vals):
                o.fields["." + n] = v
            post = self.repo.mro_method(ci, "__post_init__")
            if post is not None:
                self.call(post, [o], {}, pc)
            return o
        if any("Exception" in b or "Error" in b for b in self.repo.base_names(ci)):
            return scalar()
        o = Obj("instance")
        o.val = ci
        init = self.repo.mro_method(ci, "__init__")
        if init is not None:
            self.call(init, [o] + args, kwargs, pc)
        return o

    def builtin(self, name, a, kw, e, env, pc, fi):
        allt = frozenset().union(*[taint(x) for x in a]) if a else E
        allp = frozenset(x for x in allt if x != ZERO)
        if name in ("int", "float"):
            if a and a[0].kind == "const" and isinstance(a[0].val, (int, float)):
                return const(a[0].val)
            return scalar({ZERO} | allp)
        if name in ("str", "repr", "chr", "format"):
            return string(allp)
        if name in ("len", "abs", "sum", "min", "max", "round", "ord", "hash", "id", "divmod", "pow"):
            return scalar(allp | {ZERO})
        if name in ("bool", "isinstance", "any", "all", "callable", "hasattr"):
            return scalar(allp)
        if name == "range":
            o = Obj("list")
            o.elem = scalar(allp | {ZERO})
            return o
        if name == "enumerate":
            o = Obj("enumerate")
            o.val = a[0]
            return o
        if name == "zip":
            o = Obj("zip")
            o.val = list(a)
            return o
        if name in ("list", "tuple", "set", "frozenset", "sorted", "reversed", "iter"):
            if not a:
                return Obj("list", site=id(e))
            src = a[0]
            if src.kind == "list":
                o = Obj("list", site=id(e))
                o.elem = src.elem
                o.t = src.t
                o.val = "lines" if src.val == "lines" and name != "sorted" else None
                return o
            o = Obj("list", site=id(e))
            for el in self.iter_elems(src):
                o.elem = joinv(o.elem, el)
            return o
        if name == "dict":
            if not a:
                if kw:
                    o = Obj("rec")
                    for k, v in kw.items():
                        o.fields[k] = v
                    return o
                return Obj("emptydict", site=id(e))
            src = a[0]
            if src.kind in ("rec", "map", "emptydict"):
                return self._copy_dict(src)
            o = Obj("emptydict", site=id(e))
            fr = self.frames[-1] if self.frames else Frame(fi)
            for el in self.iter_elems(src):
                if el.kind == "tuple" and len(el.items) == 2:
                    self.store(o, el.items[0], el.items[1], fr, e)
                else:
                    o.kind = "map"
                    self._join_into(o, scalar(taint(el)))
            return o
        if name in ("print",):
            return NONE()
        if name == "next":
            els = self.iter_elems(a[0]) if a else []
            return joinall(els) if els else scalar()
        if name == "getattr":
            return scalar(allp)
        if name == "open":
            return Obj("file")
        if name == "slice":
            o = Obj("sliceobj", allp)
            if all(x.kind == "const" for x in a):
                try:
                    o.val = slice(*[x.val for x in a])
                except (NameError, UnboundLocalError):
                    raise
                except Exception:
                    o.val = None
            return o
        if name == "map" and a and a[0].kind in ("func", "class", "lambda", "builtin", "ext") and len(a) >= 2:
            cols = [self.iter_elems(x) for x in a[1:]]
            n_ = max(len(c) for c in cols) if cols else 0
            results = []
            for i in range(n_):
                argv = [c[i] if i < len(c) else (c[-1] if c else scalar()) for c in cols]
                results.append(self.call_value(a[0], argv, {}, pc, e, fi))
            if all(x.kind == "tuple" for x in a[1:]) and results:
                return self.mktuple(results)        # one result per position of the fixed-length inputs
            o = Obj("list")
            for r_ in results:
                o.elem = joinv(o.elem, r_)
            return o
        if name in ("map", "filter"):
            o = Obj("list")
            for x in a[1:]:
                for el in self.iter_elems(x):
                    o.elem = joinv(o.elem, el if name == "filter" else scalar(taint(el)))
            return o
        self.unsummarised.add(f"builtin {name}")
        return scalar(allt)

    def _copy_dict(self, src: Obj) -> Obj:
        o = Obj(src.kind)
        o.fields = dict(src.fields)
        o.elem = src.elem
        o.keyt = src.keyt
        o.val = src.val
        return o

    def ext(self, q, a, kw, e, pc, fi):
        allt = frozenset().union(*[taint(x) for x in a]) if a else E
        allp = frozenset(x for x in allt if x != ZERO)
        if q in ("functools.partial",) and a and a[0].kind == "func":
            o = Obj("func", val=a[0].val)
            o.fields.update(a[0].fields)
            prev = list(o.fields["args"].items) if "args" in o.fields else []
            o.fields["args"] = self.mktuple(prev + list(a[1:]))
            kwo = Obj("rec")
            if "kwargs" in o.fields:
                kwo.fields.update(o.fields["kwargs"].fields)
            kwo.fields.update(kw)
            o.fields["kwargs"] = kwo
            return o
        if q in ("collections.deque",):
            if not a:
                return Obj("list", site=id(e))
            o = Obj("list", site=id(e))
            o.elem = a[0].elem if a[0].kind == "list" else joinall(self.iter_elems(a[0]))
            o.val = "lines" if a[0].kind == "list" and a[0].val == "lines" else None
            return o
        if q.startswith("re."):
            if q == "re.compile":
                return Obj("regex")
            if q in ("re.search", "re.match", "re.fullmatch"):
                return string(allp)
            if q in ("re.findall", "re.split"):
                o = Obj("list")
                o.elem = string(allp)
                return o
            return string(allp)
        if q.startswith("pathlib."):
            return Obj("path", t=allp)
        self.unsummarised.add(q)
        return scalar(allt)

    def method(self, recv: Obj, name, a, kw, e, env, pc, fi):
        allt = frozenset().union(*[taint(x) for x in a]) if a else E
        allp = frozenset(x for x in allt if x != ZERO)
        k = recv.kind
        fr = self.frames[-1] if self.frames else Frame(fi)
        if (k == "const" and isinstance(recv.val, str)) or k == "keyset":
            k = "str"
        if recv.kind == "const" and isinstance(recv.val, str) and name in ("upper", "lower", "strip", "lstrip", "rstrip", "title", "capitalize") \
                and all(x.kind == "const" for x in a):
            try:
                return Obj("const", recv.t, getattr(recv.val, name)(*[x.val for x in a]))
            except (NameError, UnboundLocalError):
                raise
            except Exception:
                pass
        if k == "str" or (k == "scalar" and name in STR_METHODS):
            rp = prov(recv)
            if name in ("split", "splitlines", "rsplit", "partition", "rpartition"):
                o = Obj("list")
                o.elem = string(rp | allp)
                # the pieces of a token (KEY=value -> KEY, value) are a different thing from the tokens of a line
                blank_sep = not a or (a[0].kind == "const" and (a[0].val is None or (isinstance(a[0].val, str) and a[0].val.strip() == "")))
                o.val = None if (blank_sep and name in ("split", "rsplit") and not any(x.startswith("@idx") for x in rp)) else "split"
                return o
            if name in ("strip", "rstrip", "lstrip", "lower", "upper", "replace", "removeprefix", "removesuffix", "ljust", "rjust",
                        "zfill", "format", "expandtabs", "title", "capitalize", "center", "casefold"):
                return string(rp | allp)
            if name == "join":
                t = set(rp)
                for x in a:
                    t |= prov(x)
                return string(t)
            if name in ("startswith", "endswith", "isdigit", "isspace", "isalpha", "isnumeric", "isupper", "islower", "find", "index", "count", "rfind"):
                return scalar(rp | allp)
            return string(rp | allp)
        if k == "regex":
            if name in ("search", "match", "fullmatch"):
                return string(allp)
            if name in ("findall", "split", "finditer"):
                o = Obj("list")
                o.elem = string(allp)
                return o
            return string(allp)
        if k == "rec":
            if name == "items":
                o = Obj("rec_items")
                o.val = recv
                return o
            if name == "values":
                o = Obj("rec_values")
                o.val = recv
                return o
            if name == "keys":
                o = Obj("rec_keys")
                o.val = recv
                return o
            if name == "update":
                for x in a:
                    self.merge_into(recv, x, fr, e, pc)
                for kk, v in kw.items():
                    recv.fields[kk] = joinv(recv.fields.get(kk), v)
                return NONE()
            if name in ("get", "setdefault"):
                ks = self.keyset(a[0]) if a else None
                r = None
                for kk in ks if ks is not None else list(recv.fields):
                    r = joinv(r, recv.fields.get(kk))
                d = a[1] if len(a) > 1 else NONE()
                if name == "setdefault" and ks is not None:
                    for kk in ks:
                        if kk not in recv.fields:
                            recv.fields[kk] = d
                        r = joinv(r, recv.fields[kk])
                    return r
                return joinv(r, d) if r is not None else d
            if name == "pop":
                self.kill(recv, a[0], fr, e)
                ks = self.keyset(a[0]) or []
                r = None
                for kk in ks:
                    r = joinv(r, recv.fields.get(kk))
                return r if r is not None else scalar()
            if name == "copy":
                return self._copy_dict(recv)
            if name == "clear":
                for kk in list(recv.fields):
                    self.events.append(Event("kill", kk, taint(recv.fields[kk]), fr.fi, e, target=recv))
                return NONE()
        if k == "emptydict":
            if name in ("items", "values", "keys"):
                return Obj("emptydict")
            if name == "get":
                return a[1] if len(a) > 1 else NONE()
            if name == "pop":
                return a[1] if len(a) > 1 else scalar()
            if name == "setdefault":
                recv.kind = "map" if self.keyset(a[0]) is None else "rec"
                d = a[1] if len(a) > 1 else NONE()
                if recv.kind == "map":
                    recv.keyt |= prov(a[0])
                    return self._join_into(recv, d)
                for kk in self.keyset(a[0]):
                    recv.fields[kk] = d
                return d
            if name == "update":
                for x in a:
                    self.merge_into(recv, x, fr, e, pc)
                return NONE()
            if name == "copy":
                return Obj("emptydict")
        if k == "map":
            if name == "items":
                o = Obj("map_items"); o.val = recv; return o
            if name == "values":
                o = Obj("map_values"); o.val = recv; return o
            if name == "keys":
                o = Obj("map_keys"); o.val = recv; return o
            if name == "get":
                d = a[1] if len(a) > 1 else NONE()
                if recv.val is not None and a and a[0].kind == "const":
                    try:
                        return with_t(self.lift(recv.val[a[0].val], 1), prov(a[0])) if a[0].val in recv.val else d
                    except (NameError, UnboundLocalError):
                        raise
                    except Exception:
                        pass
                el = recv.elem if recv.elem is not None else None
                r = joinv(el, d) if el is not None else d
                # the selected entry depends on the key
                if r.kind == "rec" and a:
                    o = Obj("rec")
                    for kk, v in r.fields.items():
                        o.fields[kk] = with_t(v, prov(a[0]))
                    return o
                return with_t(r, prov(a[0])) if a else r
            if name == "setdefault":
                recv.keyt |= prov(a[0])
                return self._join_into(recv, a[1] if len(a) > 1 else NONE())
            if name == "pop":
                return recv.elem if recv.elem is not None else scalar()
            if name == "update":
                for x in a:
                    self.merge_into(recv, x, fr, e, pc)
                return NONE()
            if name == "copy":
                return self._copy_dict(recv)
        if k == "list":
            if name in ("append", "appendleft", "add", "insert"):
                v = a[-1]
                recv.elem = joinv(recv.elem, with_t(v, pc)) if not (recv.elem is not None and recv.elem.kind == "rec" and v.kind == "rec") else self._join_into(recv, v)
                return NONE()
            if name in ("extend", "extendleft", "update"):
                for el in self.iter_elems(a[0]):
                    recv.elem = joinv(recv.elem, el)
                return NONE()
            if name in ("pop", "popleft"):
                return recv.elem if recv.elem is not None else scalar()
            if name in ("copy",):
                o = Obj("list"); o.elem = recv.elem; o.val = "lines" if recv.val == "lines" else None; return o
            if name in ("sort", "reverse", "clear", "remove"):
                return NONE()
            if name in ("index", "count"):
                return scalar(allp | {ZERO})
        if k == "tuple" and name in ("index", "count"):
            return scalar(allp | {ZERO})
        if k == "instance":
            m = self.repo.mro_method(recv.val, name)
            if m is not None:
                return self.call(m, [recv] + a, kw, pc)
        if k == "attr":
            return scalar(allt | taint(recv.val[0]))
        if k == "file":
            if name in ("readlines", "splitlines"):
                o = Obj("list")
                o.elem = string(E)
                o.val = "lines"
                return o
            return string(E)
        if k == "path":
            return string(recv.t)
        if k in ("scalar", "unknown", "none", "ext"):
            return scalar(allt | recv.t)
        raise AnalysisError(f"reader interpreter: method {k}.{name} at {fi.loc(e)} not summarised")


STR_METHODS = {"split", "strip", "rstrip", "lstrip", "startswith", "endswith", "join", "splitlines", "lower", "upper", "replace",
               "isdigit", "find", "partition", "group", "groups"}


def _has_break(body) -> bool:
    """a `break` that belongs to this loop (not to a nested one)"""
    stack = list(body)
    while stack:
        n = stack.pop()
        if isinstance(n, ast.Break):
            return True
        if isinstance(n, (ast.For, ast.While, ast.FunctionDef, ast.Lambda)):
            continue
        stack.extend(x for x in ast.iter_child_nodes(n) if isinstance(x, ast.stmt) or isinstance(x, ast.ExceptHandler))
    return False


def joinall(xs):
    r = None
    for x in xs:
        r = joinv(r, x)
    return r if r is not None else scalar()
