"""K-domain: what the one-step refinement function computes, read off its code.

The step function of the canonicalisation gives every atom a *key* (its own attribute value followed by the
sorted values of its neighbours) and then a *class*: the rank of the key among the sorted distinct keys.  This
interpreter follows the function (and the helpers it calls) with values that say which of these roles an
expression plays; it does not care how the code is cut into functions, loops or comprehensions.

values
  G                graph argument or a copy of it (same nodes, same order)
  ATTR             the attribute-name argument
  ATOM / NBR       the atom of the current per-atom iteration / one of its neighbours
  Val(who)         attribute value of ATOM ('own') or of a neighbour ('nbr')
  Seq(segs)        a sequence built from those: segs is a tuple of ('own',) / ('nbr', 'listing' | 'sorted') /
                   ('nested', segs)
  Per(kind, what)  one entry per atom, aligned with the node order: kind list/dict/gen, what 'atom'/'key'/'class'/
                   ('pair', a, b)
  KeySet, U(order) distinct keys as a set / as a sequence: order 'sorted' | 'listing' ; Dup for sorted(keys) with duplicates
  Rank(quality)    table key -> int: 'dense' (0..k-1 over the sorted distinct keys) | 'listing' | 'dup'
"""
from __future__ import annotations

import ast
from typing import Optional

from .model import AnalysisError, FuncInfo, norm, short


class KV:
    def __init__(self, tag, *a):
        self.tag, self.a = tag, a

    def __repr__(self):
        return f"{self.tag}{self.a if self.a else ''}"

    def __eq__(self, o):
        return isinstance(o, KV) and (self.tag, self.a) == (o.tag, o.a)

    def __hash__(self):
        return hash((self.tag, self.a))


G, ATTR, ATOM, NBR, NODES, ADJ, NBRS, KEYSET, KEYELEM, CLASSELEM, RANGE_U, ENUM_U, NONE_ = (KV(t) for t in
    ("G", "ATTR", "ATOM", "NBR", "NODES", "ADJ", "NBRS", "KEYSET", "KEYELEM", "CLASSELEM", "RANGE_U", "ENUM_U", "NONE"))


def Val(who): return KV("Val", who)
def Attrs(who): return KV("Attrs", who)
def Seq(segs): return KV("Seq", tuple(segs))
def Per(kind, what): return KV("Per", kind, what)
def U(order): return KV("U", order)
def Rank(q): return KV("Rank", q)
def Const(v): return KV("Const", v)
def Unk(why): return KV("Unk", why)
def EmptyList(): return KV("EmptyList")
def EmptyDict(): return KV("EmptyDict")
def Tup(*items): return KV("Tup", *items)


class Undecided(AnalysisError):
    pass


class KeyInterp:
    def __init__(self, ctx, partition_key: str):
        self.ctx = ctx
        self.repo = ctx.repo
        self.part = partition_key
        self.keys: list = []          # (segs, node, FuncInfo): every sequence that was used as an atom's key
        self.sinks: list = []         # (what is written under PARTITION, node, FuncInfo)
        self.ranks: list = []         # (quality, node, FuncInfo)
        self.depth = 0

    # ---------------------------------------------------------------- entry
    def run(self, fi: FuncInfo):
        ps = [a.arg for a in fi.node.args.args]
        if len(ps) < 2:
            raise Undecided(f"step function {fi.qualname} does not take (graph, attribute)")
        self.call(fi, [G, ATTR])
        return self

    def call(self, fi: FuncInfo, args):
        if self.depth > 4:
            raise Undecided("call depth")
        env = {}
        ps = [a.arg for a in fi.node.args.posonlyargs + fi.node.args.args]
        for p, a in zip(ps, args):
            env[p] = a
        self.depth += 1
        try:
            r = self.block(fi, fi.node.body, env)
        finally:
            self.depth -= 1
        return r if r is not None else NONE_

    # ---------------------------------------------------------------- statements
    def block(self, fi, stmts, env):
        """returns the returned value if a return was executed on the (single, straight-line) path, else None"""
        for st in stmts:
            r = self.stmt(fi, st, env)
            if r is not None:
                return r
        return None

    def stmt(self, fi, st, env):
        if isinstance(st, ast.Expr):
            if isinstance(st.value, ast.Constant):
                return None
            self.effect(fi, st.value, env)
            return None
        if isinstance(st, (ast.Assign, ast.AnnAssign)):
            if isinstance(st, ast.AnnAssign) and st.value is None:
                return None
            tgs = st.targets if isinstance(st, ast.Assign) else [st.target]
            v = self.ev(fi, st.value, env)
            for tg in tgs:
                self.assign(fi, tg, v, env, st)
            return None
        if isinstance(st, ast.AugAssign):
            cur = self.ev(fi, st.target, env)
            v = self.ev(fi, st.value, env)
            if isinstance(st.op, ast.Add) and cur.tag in ("Seq", "EmptyList") and v.tag in ("Seq", "EmptyList"):
                self.assign(fi, st.target, self.concat(cur, v), env, st)
                return None
            self.assign(fi, st.target, Unk(f"augmented assignment {short(st)}"), env, st)
            return None
        if isinstance(st, ast.Return):
            return self.ev(fi, st.value, env) if st.value is not None else NONE_
        if isinstance(st, ast.For):
            self.loop(fi, st.target, st.iter, st.body, env)
            return None
        if isinstance(st, ast.If):
            # guard clauses (empty molecule, type checks) do not change what is computed for the atoms: follow the
            # branch that does not return; if both continue, both must agree on the roles of the names they bind
            e1, e2 = dict(env), dict(env)
            r1 = self.block(fi, st.body, e1)
            r2 = self.block(fi, st.orelse, e2)
            if r1 is not None and r2 is None:
                env.clear(); env.update(e2); return None
            if r2 is not None and r1 is None:
                env.clear(); env.update(e1); return None
            if r1 is not None and r2 is not None:
                return r1 if r1 == r2 else Unk("branches return different things")
            for k in set(e1) | set(e2):
                a, b = e1.get(k), e2.get(k)
                env[k] = a if a == b else Unk(f"`{k}` differs between branches")
            return None
        if isinstance(st, (ast.Pass, ast.Assert, ast.Import, ast.ImportFrom)):
            return None
        if isinstance(st, ast.FunctionDef):
            nested = fi.module.functions.get(f"{fi.qualname}.<locals>.{st.name}")
            if nested is not None:
                env[st.name] = KV("Func", nested.fq, id(env))
                self._closures = getattr(self, "_closures", {})
                self._closures[(nested.fq, id(env))] = env
            return None
        if isinstance(st, ast.Raise):
            return Unk("raise")
        raise Undecided(f"statement {type(st).__name__} at {fi.loc(st)}")

    def assign(self, fi, tg, v, env, st):
        if isinstance(tg, ast.Name):
            env[tg.id] = v
        elif isinstance(tg, (ast.Tuple, ast.List)):
            if v.tag == "Tup" and len(v.a) == len(tg.elts):
                for t, x in zip(tg.elts, v.a):
                    self.assign(fi, t, x, env, st)
            else:
                for t in tg.elts:
                    self.assign(fi, t, Unk(f"unpacking of {v}"), env, st)
        elif isinstance(tg, ast.Subscript):
            base = self.ev(fi, tg.value, env)
            key = self.ev(fi, tg.slice, env)
            # G'.nodes[ATOM][PARTITION] = class      (the sink, written per atom)
            if base.tag == "Attrs" and key.tag == "Const" and key.a[0] == self.part:
                self.sinks.append((self.what(v, fi, st), st, fi))
                return
            # D[ATOM] = x : one entry per atom
            if isinstance(tg.value, ast.Name) and key == ATOM and base.tag in ("EmptyDict", "Per"):
                w = self.what(v, fi, st)
                if base.tag == "Per" and base.a[1] != w:
                    env[tg.value.id] = Unk("dictionary filled with different things")
                else:
                    env[tg.value.id] = Per("dict", w)
                return
            if isinstance(tg.value, ast.Name):
                env[tg.value.id] = Unk(f"store `{short(st)}`")
        elif isinstance(tg, ast.Attribute):
            pass
        else:
            raise Undecided(f"assignment target at {fi.loc(st)}")

    def what(self, v, fi, node):
        """role of a value stored once per atom"""
        if v == ATOM:
            return "atom"
        if v.tag == "Seq":
            self.keys.append((v.a[0], node, fi))
            return "key"
        if v in (KEYELEM,):
            return "key"
        if v == CLASSELEM:
            return "class"
        if v.tag == "Tup" and len(v.a) == 2:
            return ("pair", self.what(v.a[0], fi, node), self.what(v.a[1], fi, node))
        if v.tag == "Val":
            return ("val", v.a[0])
        return ("unknown", repr(v))

    # ---------------------------------------------------------------- loops
    def iter_elem(self, fi, it, node):
        """value of the loop variable for an iterable"""
        if it == G or it == NODES:
            return ATOM
        if it == NBRS or it.tag == "NBRS_PART":
            return NBR
        if it.tag == "Per":
            kind, w = it.a
            if kind == "dict":
                return ATOM                 # iterating a dict gives its keys: the atoms
            return self.elem_of(w)
        if it.tag == "PerItems":
            return Tup(ATOM, self.elem_of(it.a[0]))
        if it.tag == "PerValues":
            return self.elem_of(it.a[0])
        if it.tag == "Zip":
            return Tup(*[self.iter_elem(fi, x, node) for x in it.a])
        if it.tag == "Enum":
            return Tup(KV("Index"), self.iter_elem(fi, it.a[0], node))
        if it.tag == "U":
            return KV("UKey", it.a[0])
        if it == ENUM_U or it.tag == "EnumU":
            return Tup(KV("URank", it.a[0] if it.a else "sorted"), KV("UKey", it.a[0] if it.a else "sorted"))
        if it.tag == "ZipU":
            return Tup(KV("UKey", it.a[0]), KV("URank", it.a[0]))
        if it.tag == "Seq":
            return Unk("element of a key")
        if it.tag == "Tup":
            return Unk("element of a tuple") if len(set(it.a)) != 1 else it.a[0]
        return Unk(f"element of {it}")

    @staticmethod
    def elem_of(w):
        if w == "atom":
            return ATOM
        if w == "key":
            return KEYELEM
        if w == "class":
            return CLASSELEM
        if isinstance(w, tuple) and w[0] == "pair":
            return Tup(KeyInterp.elem_of(w[1]), KeyInterp.elem_of(w[2]))
        if isinstance(w, tuple) and w[0] == "val":
            return Val(w[1])
        return Unk(f"per-atom {w}")

    def loop(self, fi, target, iter_expr, body, env):
        it = self.ev(fi, iter_expr, env)
        el = self.iter_elem(fi, it, iter_expr)
        self.assign(fi, target, el, env, iter_expr)
        # lists appended to once per atom become per-atom lists
        for st in body:
            r = self.stmt(fi, st, env)
            if r is not None:
                break
        # after a loop over neighbours, the neighbour variable means nothing; after a loop over atoms likewise

    # ---------------------------------------------------------------- effects (calls used as statements)
    def effect(self, fi, e, env):
        if isinstance(e, ast.Call) and isinstance(e.func, ast.Attribute) and isinstance(e.func.value, ast.Name):
            name, m = e.func.value.id, e.func.attr
            cur = env.get(name)
            if cur is not None and m in ("append", "add") and e.args:
                v = self.ev(fi, e.args[0], env)
                if v.tag == "Val" and v.a[0] == "nbr" and cur.tag in ("EmptyList", "Seq"):
                    env[name] = self.concat(cur, Seq([("nbr", "listing")])) if not (cur.tag == "Seq" and cur.a[0] and cur.a[0][-1] == ("nbr", "listing")) else cur
                    return
                if v.tag == "Val" and v.a[0] == "own" and cur.tag in ("EmptyList", "Seq"):
                    env[name] = self.concat(cur, Seq([("own",)]))
                    return
                if cur.tag in ("EmptyList", "Per"):
                    w = self.what(v, fi, e)
                    env[name] = Per("list", w) if cur.tag == "EmptyList" or cur.a[1] == w else Unk("list filled with different things")
                    return
                env[name] = Unk(f"`{short(e)}`")
                return
            if cur is not None and m == "insert" and len(e.args) == 2 and cur.tag in ("Seq", "EmptyList"):
                pos, v = self.ev(fi, e.args[0], env), self.ev(fi, e.args[1], env)
                if pos.tag == "Const" and pos.a[0] == 0 and v.tag == "Val" and v.a[0] == "own":
                    env[name] = self.concat(Seq([("own",)]), cur)
                    return
                env[name] = Unk(f"`{short(e)}`")
                return
            if cur is not None and m == "extend" and e.args and cur.tag in ("Seq", "EmptyList"):
                v = self.ev(fi, e.args[0], env)
                env[name] = self.concat(cur, v) if v.tag in ("Seq", "EmptyList") else Unk(f"`{short(e)}`")
                return
            if cur is not None and m == "sort" and cur.tag == "Seq":
                if any(k.arg == "key" for k in e.keywords):
                    env[name] = Unk("sorted with a key function")
                    return
                segs = cur.a[0]
                if any(s[0] == "own" for s in segs):
                    env[name] = Seq([("mixed-sorted",)])       # the own value is sorted in among the neighbours
                else:
                    env[name] = Seq([("nbr", "sorted") if s[0] == "nbr" else s for s in segs])
                return
            if cur is not None and m == "reverse" and cur.tag == "Seq":
                env[name] = Seq(tuple(reversed(cur.a[0])))
                return
        # nx.set_node_attributes(G', values, PARTITION)
        if isinstance(e, ast.Call):
            q = norm(e.func)
            if q.endswith("set_node_attributes") and len(e.args) >= 2:
                key = self.ev(fi, e.args[2], env) if len(e.args) > 2 else next((self.ev(fi, k.value, env) for k in e.keywords if k.arg == "name"), NONE_)
                vals = self.ev(fi, e.args[1], env)
                if key.tag == "Const" and key.a[0] == self.part:
                    if vals.tag == "Per" and vals.a[0] == "dict":
                        self.sinks.append((vals.a[1], e, fi))
                    else:
                        self.sinks.append((("unknown", repr(vals)), e, fi))
                return
            cs = self.ctx.cg.resolve_call(fi, e, self.ctx.cg.local_types(fi), set(a.arg for a in fi.node.args.args))
            if cs.kind == "tucan":
                self.call(cs.target, [self.ev(fi, a, env) for a in e.args])
                return
        self.ev(fi, e, env)

    @staticmethod
    def concat(a, b):
        sa = a.a[0] if a.tag == "Seq" else ()
        sb = b.a[0] if b.tag == "Seq" else ()
        return Seq(tuple(sa) + tuple(sb))

    # ---------------------------------------------------------------- expressions
    def ev(self, fi, e, env):
        if e is None:
            return NONE_
        if isinstance(e, ast.Constant):
            return Const(e.value)
        if isinstance(e, ast.Name):
            if e.id in env:
                return env[e.id]
            c = self.repo.try_const(fi.module, e.id, None)
            if c is not None:
                return Const(c)
            r = self.repo.resolve(fi.module, e.id)
            if r and r[0] == "func":
                return KV("Func", r[1].fq, None)
            return Unk(f"name {e.id}")
        if isinstance(e, ast.Attribute):
            b = self.ev(fi, e.value, env)
            if b == G and e.attr in ("nodes", "_node"):
                return NODES
            if b == G and e.attr in ("adj", "_adj"):
                return ADJ
            c = self.repo.try_const(fi.module, norm(e), None) if isinstance(e.value, ast.Name) else None
            return Unk(f"attribute {norm(e)}")
        if isinstance(e, ast.Subscript):
            b = self.ev(fi, e.value, env)
            if isinstance(e.slice, ast.Slice):
                if b.tag == "Seq" and e.slice.lower is None and e.slice.upper is None:
                    return Seq(tuple(reversed(b.a[0]))) if e.slice.step is not None else b
                return Unk(f"slice {short(e)}")
            k = self.ev(fi, e.slice, env)
            if b == NODES and k in (ATOM, NBR):
                return Attrs("own" if k == ATOM else "nbr")
            if b.tag == "Attrs" and (k == ATTR):
                return Val(b.a[0])
            if b.tag == "NodeData" and k in (ATOM, NBR):
                return Val("own" if k == ATOM else "nbr")
            if b in (G, ADJ) and k == ATOM:
                return NBRS
            if b.tag == "Rank" and k in (KEYELEM,) or (b.tag == "Rank" and k.tag == "Seq"):
                if k.tag == "Seq":
                    self.keys.append((k.a[0], e, fi))
                self.ranks.append((b.a[0], e, fi))
                return CLASSELEM
            if b.tag == "Per" and b.a[0] == "dict" and k == ATOM:
                return self.elem_of(b.a[1])
            return Unk(f"subscript {short(e)}")
        if isinstance(e, (ast.Tuple, ast.List)):
            items = []
            segs = []
            is_seq = True
            for x in e.elts:
                if isinstance(x, ast.Starred):
                    v = self.ev(fi, x.value, env)
                    if v.tag == "Seq":
                        segs.extend(v.a[0])
                    elif v.tag == "EmptyList":
                        pass
                    else:
                        is_seq = False
                    items.append(v)
                    continue
                v = self.ev(fi, x, env)
                items.append(v)
                if v.tag == "Val" and v.a[0] == "own":
                    segs.append(("own",))
                elif v.tag == "Val" and v.a[0] == "nbr":
                    segs.append(("nbr", "listing"))
                elif v.tag == "Seq":
                    segs.append(("nested", v.a[0]))
                else:
                    is_seq = False
            if not e.elts:
                return EmptyList()
            if is_seq:
                return Seq(segs)
            return Tup(*items)
        if isinstance(e, ast.Dict):
            return EmptyDict() if not e.keys else Unk("dict literal")
        if isinstance(e, ast.BinOp) and isinstance(e.op, ast.Add):
            a, b = self.ev(fi, e.left, env), self.ev(fi, e.right, env)
            if a.tag in ("Seq", "EmptyList") and b.tag in ("Seq", "EmptyList"):
                return self.concat(a, b)
            return Unk(f"`{short(e)}`")
        if isinstance(e, (ast.ListComp, ast.GeneratorExp, ast.SetComp)):
            return self.comp(fi, e, env)
        if isinstance(e, ast.DictComp):
            return self.dictcomp(fi, e, env)
        if isinstance(e, ast.Call):
            return self.callexpr(fi, e, env)
        if isinstance(e, ast.NamedExpr):
            v = self.ev(fi, e.value, env)
            env[e.target.id] = v
            return v
        if isinstance(e, ast.IfExp):
            a, b = self.ev(fi, e.body, env), self.ev(fi, e.orelse, env)
            return a if a == b else Unk(f"`{short(e)}`")
        if isinstance(e, (ast.Compare, ast.BoolOp, ast.UnaryOp)):
            return KV("Bool")
        if isinstance(e, ast.Starred):
            return self.ev(fi, e.value, env)
        if isinstance(e, ast.Lambda):
            return KV("Lambda", id(e))
        return Unk(f"expression {type(e).__name__}")

    def comp(self, fi, e, env):
        env2 = dict(env)
        if len(e.generators) != 1:
            return Unk("nested comprehension")
        g = e.generators[0]
        it = self.ev(fi, g.iter, env2)
        el = self.iter_elem(fi, it, g.iter)
        self.assign(fi, g.target, el, env2, g.iter)
        elt = self.ev(fi, e.elt, env2)
        if g.ifs:
            return Unk("filtered comprehension")
        # values of the neighbours, in listing order
        if it == NBRS and elt.tag == "Val" and elt.a[0] == "nbr":
            return Seq([("nbr", "listing")])
        if it.tag == "NBRS_PART" and elt.tag == "Val" and elt.a[0] == "nbr":
            return Seq([("nbr", "partial")])            # only some of the neighbours (which ones: by listing order)
        per_atom = it in (G, NODES) or it.tag in ("Per", "PerItems", "PerValues", "Zip", "Enum")
        if per_atom:
            if isinstance(e, ast.SetComp):
                w = self.what(elt, fi, e)
                return KEYSET if w == "key" else Unk("set of something else")
            return Per("gen" if isinstance(e, ast.GeneratorExp) else "list", self.what(elt, fi, e))
        return Unk(f"comprehension over {it}")

    def dictcomp(self, fi, e, env):
        env2 = dict(env)
        if len(e.generators) != 1 or e.generators[0].ifs:
            return Unk("dict comprehension form")
        g = e.generators[0]
        it = self.ev(fi, g.iter, env2)
        el = self.iter_elem(fi, it, g.iter)
        self.assign(fi, g.target, el, env2, g.iter)
        k, v = self.ev(fi, e.key, env2), self.ev(fi, e.value, env2)
        # {key: rank for rank, key in enumerate(U)}  /  {key: rank for key, rank in zip(U, range(len(U)))}
        if k.tag == "UKey" and v.tag == "URank" and k.a == v.a:
            q = {"sorted": "dense", "listing": "listing", "dup": "dup"}[k.a[0]]
            return Rank(q)
        if k == ATOM:
            return Per("dict", self.what(v, fi, e))
        return Unk(f"dict comprehension {short(e)}")

    def callexpr(self, fi, e, env):
        f = e.func
        args = [self.ev(fi, a.value if isinstance(a, ast.Starred) else a, env) for a in e.args]
        kws = {k.arg: k.value for k in e.keywords if k.arg}
        # methods
        if isinstance(f, ast.Attribute):
            recv = self.ev(fi, f.value, env)
            m = f.attr
            if recv == G and m == "neighbors" and args and args[0] == ATOM:
                return NBRS
            if recv == G and m == "copy":
                return G
            if recv == G and m in ("nodes",):
                d = kws.get("data") or (e.args[0] if e.args else None)
                if d is None:
                    return NODES
                dv = self.ev(fi, d, env)
                if dv == ATTR:
                    return KV("NodeData")
                return Unk("nodes(data=...)")
            if recv == NODES and m == "data" and args and args[0] == ATTR:
                return KV("NodeData")
            if recv == G and m in ("number_of_nodes", "order", "__len__"):
                return KV("NodeCount")
            if recv.tag == "Attrs" and m == "get" and args and args[0] == ATTR:
                return Val(recv.a[0])
            if recv.tag == "Per" and recv.a[0] == "dict" and m == "items":
                return KV("PerItems", recv.a[1])
            if recv.tag == "Per" and recv.a[0] == "dict" and m == "values":
                return KV("PerValues", recv.a[1])
            if recv.tag == "Per" and recv.a[0] == "dict" and m == "keys":
                return Per("list", "atom")
            if recv.tag == "Rank" and m == "get" and args:
                return self.ev(fi, ast.Subscript(f.value, e.args[0], ast.Load()), env)
            if recv.tag == "Seq" and m == "copy":
                return recv
            if isinstance(f.value, ast.Name) and f.value.id == "dict" and m == "fromkeys" and args:
                w = args[0].a[1] if args[0].tag == "Per" else (args[0].a[0] if args[0].tag == "PerValues" else None)
                return KV("FirstSeen") if w == "key" else Unk("dict.fromkeys of something else")
            q = norm(f)
            if q.endswith("nx.neighbors") or q == "networkx.neighbors":
                return NBRS if len(args) == 2 and args[0] == G and args[1] == ATOM else Unk(q)
            if q.endswith("get_node_attributes") and len(args) == 2 and args[0] == G:
                return Per("dict", ("val", "own")) if args[1] == ATTR else Unk(q)
            if q.split(".")[-1] == "Graph" and len(args) == 1 and args[0] == G:
                return G            # nx.Graph(m): a copy of the molecule, like m.copy()
            if q in ("itertools.count", "count"):
                return RANGE_U
            if q.split(".")[-1] in ("islice", "takewhile", "dropwhile") and any(x == NBRS for x in args):
                return KV("NBRS_PART")
            # a library / module function
            r = self.repo.resolve_dotted(fi.module, f) if isinstance(f.value, (ast.Name, ast.Attribute)) else None
            if r and r[0] == "func":
                return self.call(r[1], args)
            return Unk(f"call {q}")
        if isinstance(f, ast.Name):
            n = f.id
            if n in env and env[n].tag == "Func":
                return self.call_func_value(env[n], args)
            r = self.repo.resolve(fi.module, n)
            if r and r[0] == "func":
                return self.call(r[1], args)
            if r and r[0] == "ext" and r[1] in ("itertools.count",):
                return RANGE_U
            if r and r[0] == "ext" and r[1].split(".")[-1] in ("islice", "takewhile", "dropwhile") and any(x == NBRS for x in args):
                return KV("NBRS_PART")
            a0 = args[0] if args else None
            if n in ("tuple", "list", "iter") and a0 is not None:
                if a0.tag in ("Seq", "EmptyList"):
                    return a0
                if a0.tag == "Per":
                    return Per("list", a0.a[1]) if a0.a[0] != "dict" else Per("list", "atom")
                if a0 in (G, NODES):
                    return Per("list", "atom")
                if a0.tag == "PerValues":
                    return Per("list", a0.a[0])
                if a0 == KEYSET or a0.tag == "FirstSeen":
                    return U("listing")         # distinct keys in hash order / in order of first occurrence
                if a0.tag == "U":
                    return a0
                if a0 == NBRS:
                    return NBRS
                return Unk(f"{n}({a0})")
            if n == "reversed" and a0 is not None:
                if a0.tag == "Seq":
                    return Seq(tuple(reversed(a0.a[0])))
                return Unk("reversed")
            if n in ("set", "frozenset") and a0 is not None:
                w = a0.a[1] if a0.tag == "Per" else (a0.a[0] if a0.tag == "PerValues" else None)
                return KEYSET if w == "key" else Unk(f"set({a0})")
            if n == "sorted" and a0 is not None:
                if "key" in kws:
                    return Unk("sorted with a key function") if a0.tag != "Seq" else Seq([("keysorted",)])
                rev = kws.get("reverse")
                if a0 == KEYSET or a0.tag == "FirstSeen":
                    return U("sorted") if rev is None or (isinstance(rev, ast.Constant) and not rev.value) else U("sorted-desc")
                if a0.tag == "Per" and a0.a[1] == "key" or (a0.tag == "PerValues" and a0.a[0] == "key"):
                    return U("dup")
                if a0.tag == "U":
                    return U("sorted")
                if a0.tag == "Seq":
                    segs = a0.a[0]
                    if any(s[0] == "own" for s in segs):
                        return Seq([("mixed-sorted",)])
                    return Seq([("nbr", "sorted") if s[0] == "nbr" and s[1] != "partial" else s for s in segs])
                if a0 == NBRS:
                    return NBRS
                return Unk(f"sorted({a0})")
            if n == "len" and a0 is not None:
                return KV("LenU", a0.a[0]) if a0.tag == "U" else KV("Len")
            if n == "range" and len(args) == 1:
                return KV("RangeU", args[0].a[0]) if args[0].tag == "LenU" else KV("Range")
            if n == "enumerate" and a0 is not None and "start" not in kws and len(args) == 1:
                if a0.tag == "U":
                    return KV("EnumU", a0.a[0])
                return KV("Enum", a0)
            if n == "zip" and len(args) >= 2:
                if len(args) == 2 and args[0].tag == "U" and (args[1] == RANGE_U or (args[1].tag == "RangeU" and args[1].a[0] == args[0].a[0])):
                    return KV("ZipU", args[0].a[0])
                if len(args) == 2 and args[0].tag == "U":
                    return Unk(f"ranks `{short(e.args[1])}` are not 0..len-1 over the distinct keys")
                return KV("Zip", *args)
            if n == "dict" and a0 is not None:
                if a0.tag == "ZipU":
                    q = {"sorted": "dense", "listing": "listing", "dup": "dup"}.get(a0.a[0], "listing")
                    return Rank(q)
                if a0.tag == "EnumU":
                    return Unk("dict(enumerate(U)) maps rank -> key, not key -> rank")
                if a0.tag == "Zip" and len(a0.a) == 2:
                    k_, v_ = (self.iter_elem(fi, x, e) for x in a0.a)
                    if k_ == ATOM:
                        return Per("dict", self.what(v_, fi, e))
                if a0.tag == "Per" and a0.a[0] in ("list", "gen") and isinstance(a0.a[1], tuple) and a0.a[1][0] == "pair" and a0.a[1][1] == "atom":
                    return Per("dict", a0.a[1][2])
                if a0.tag == "Per" and a0.a[0] == "dict":
                    return a0
                return Unk(f"dict({a0})")
            if n in ("max", "min", "sum", "any", "all", "bool", "int", "str", "isinstance", "print", "hash", "id"):
                return KV("Scalar")
            return Unk(f"call {n}")
        return Unk(f"call {short(e)}")

    def call_func_value(self, fv, args):
        fq, envid = fv.a
        target = self.ctx.cg.funcs.get(fq)
        if target is None:
            return Unk("unknown function value")
        if envid is not None and getattr(self, "_closures", {}).get((fq, envid)) is not None:
            # closure: parameters on top of the defining function's variables
            env = dict(self._closures[(fq, envid)])
            ps = [a.arg for a in target.node.args.args]
            for p, a in zip(ps, args):
                env[p] = a
            self.depth += 1
            try:
                r = self.block(target, target.node.body, env)
            finally:
                self.depth -= 1
            return r if r is not None else NONE_
        return self.call(target, args)
