"""Program model: loader (with in-memory overlays), resolver, pure constant
evaluator, light local types, call graph with callback roots.

Only `ast` is used on the repository's files; nothing is imported from them.
"""
from __future__ import annotations

import ast
import hashlib
import os
import pathlib
from dataclasses import dataclass, field
from typing import Any, Iterable, Optional


class AnalysisError(Exception):
    """The analysis itself cannot give a verdict (vanished anchor, unsupported
    construct, unsummarised API on a path to a sink).  Exit code 2."""


class NotConst(Exception):
    pass


def norm(node: ast.AST) -> str:
    """normalised text of a construct — the key findings are identified by"""
    try:
        return " ".join(ast.unparse(node).split())
    except Exception:  # pragma: no cover
        return type(node).__name__


def short(node: ast.AST, n: int = 110) -> str:
    s = norm(node)
    return s if len(s) <= n else s[: n - 3] + "..."


@dataclass
class FuncInfo:
    module: "Module"
    qualname: str            # e.g. "refine_partitions", "TucanListenerImpl.to_graph"
    node: ast.FunctionDef
    cls: Optional["ClassInfo"] = None

    @property
    def fq(self) -> str:
        return f"{self.module.name}.{self.qualname}"

    @property
    def name(self) -> str:
        return self.node.name

    def loc(self, node: ast.AST | None = None) -> str:
        n = node if node is not None else self.node
        return f"{self.module.rel}:{getattr(n, 'lineno', '?')}"

    def __hash__(self):
        return hash(self.fq)

    def __eq__(self, o):
        return isinstance(o, FuncInfo) and o.fq == self.fq

    def __repr__(self):
        return f"<fn {self.fq}>"


@dataclass
class ClassInfo:
    module: "Module"
    name: str
    node: ast.ClassDef
    bases: list[str] = field(default_factory=list)      # dotted, resolved when possible
    methods: dict[str, FuncInfo] = field(default_factory=dict)

    @property
    def fq(self) -> str:
        return f"{self.module.name}.{self.name}"


class Module:
    def __init__(self, repo: "Repo", name: str, rel: str, src: str):
        self.repo, self.name, self.rel, self.src = repo, name, rel, src
        try:
            self.tree = ast.parse(src)
        except SyntaxError as e:
            raise AnalysisError(f"{rel}: does not parse: {e}")
        # `match` statements are read as the if / elif chains they stand for (tsa/desugar.py)
        from .desugar import desugar
        self.tree, self.matches_rewritten, self.matches_left = desugar(self.tree)
        self.functions: dict[str, FuncInfo] = {}
        self.classes: dict[str, ClassInfo] = {}
        self.imports: dict[str, tuple[str, Optional[str]]] = {}   # local -> (module, name|None)
        self.assigns: dict[str, ast.expr] = {}                    # module-level NAME = expr (last wins)
        self.assign_nodes: dict[str, ast.stmt] = {}
        self._index()

    def _index(self):
        for st in self.tree.body:
            if isinstance(st, ast.Import):
                for a in st.names:
                    self.imports[a.asname or a.name.split(".")[0]] = (a.name if a.asname else a.name.split(".")[0], None)
            elif isinstance(st, ast.ImportFrom):
                mod = st.module or ""
                if st.level:
                    base = self.name.split(".")[: -st.level]
                    mod = ".".join(base + ([mod] if mod else []))
                for a in st.names:
                    self.imports[a.asname or a.name] = (mod, a.name)
            elif isinstance(st, (ast.FunctionDef, ast.AsyncFunctionDef)):
                self._add_func(st, None, st.name)
            elif isinstance(st, ast.ClassDef):
                ci = ClassInfo(self, st.name, st, [norm(b) for b in st.bases])
                self.classes[st.name] = ci
                for s2 in st.body:
                    if isinstance(s2, (ast.FunctionDef, ast.AsyncFunctionDef)):
                        fi = self._add_func(s2, ci, f"{st.name}.{s2.name}")
                        ci.methods[s2.name] = fi
                # class-level aliases of methods:  enterB = enterA  /  enterB = enterC = _helper
                for s2 in st.body:
                    if isinstance(s2, ast.Assign) and isinstance(s2.value, ast.Name) and s2.value.id in ci.methods:
                        for t in s2.targets:
                            if isinstance(t, ast.Name):
                                ci.methods[t.id] = ci.methods[s2.value.id]
            elif isinstance(st, ast.Assign):
                for t in st.targets:
                    if isinstance(t, ast.Name):
                        self.assigns[t.id] = st.value
                        self.assign_nodes[t.id] = st
            elif isinstance(st, ast.AnnAssign) and isinstance(st.target, ast.Name) and st.value is not None:
                self.assigns[st.target.id] = st.value
                self.assign_nodes[st.target.id] = st
        # imports inside function bodies resolve like module-level ones (unless shadowed at module level)
        for n in ast.walk(self.tree):
            if isinstance(n, ast.Import) and n not in self.tree.body:
                for a in n.names:
                    self.imports.setdefault(a.asname or a.name.split(".")[0], (a.name if a.asname else a.name.split(".")[0], None))
            elif isinstance(n, ast.ImportFrom) and n not in self.tree.body and not n.level:
                for a in n.names:
                    self.imports.setdefault(a.asname or a.name, (n.module or "", a.name))

    def _add_func(self, node, cls, qual):
        fi = FuncInfo(self, qual, node, cls)
        self.functions[qual] = fi
        # nested defs are functions of their own (none in today's tree)
        for sub in ast.walk(node):
            if sub is not node and isinstance(sub, (ast.FunctionDef, ast.AsyncFunctionDef)):
                q2 = f"{qual}.<locals>.{sub.name}"
                if q2 not in self.functions:
                    self.functions[q2] = FuncInfo(self, q2, sub, cls)
        return fi


GENERATED = ("tucan/parser/tucanParser.py", "tucan/parser/tucanLexer.py", "tucan/parser/tucanListener.py")


ATTRIBUTE_NAMES_FILE = "tucan/graph_attributes.py"


class Repo:
    """The tree under analysis.  `overlay` maps repo-relative paths to replacement
    text (or None for 'deleted'); it is how self-validation variants are analysed
    without writing a copy of the repository."""

    def __init__(self, root: str | os.PathLike | None = None, overlay: dict[str, Optional[str]] | None = None):
        self.root = pathlib.Path(root or os.environ.get("TUCAN_REPO", "/repo"))
        self.overlay = dict(overlay or {})
        self._mods: dict[str, Module] = {}
        self._consts: dict[tuple[str, str], Any] = {}
        self._mod_ns: dict[str, dict] = {}
        self._const_busy: set[str] = set()
        self._callgraph = None
        if not (self.root / "tucan").is_dir():
            raise AnalysisError(f"{self.root}/tucan not found")

    # ---- files
    def exists(self, rel: str) -> bool:
        if rel in self.overlay:
            return self.overlay[rel] is not None
        return (self.root / rel).is_file()

    def text(self, rel: str) -> str:
        if rel == ATTRIBUTE_NAMES_FILE:
            if "_attr_names_text" not in self.__dict__:
                self._attr_names_text, self.attribute_names_note = self._normalised_attribute_names()
            return self._attr_names_text
        return self.raw_text(rel)

    def raw_text(self, rel: str) -> str:
        if rel in self.overlay:
            t = self.overlay[rel]
            if t is None:
                raise AnalysisError(f"anchor file vanished: {rel}")
            return t
        p = self.root / rel
        if not p.is_file():
            raise AnalysisError(f"anchor file vanished: {rel}")
        return p.read_text()

    def _normalised_attribute_names(self) -> tuple[str, str]:
        """The names under which the attributes are stored in the graph (tucan/graph_attributes.py: CHG = "chg", ...) are
        spelled once and used through the constants everywhere, so their spelling is no behaviour of the pipeline.  The
        analysis reads every such constant as the lower-case form of its own name -- the vocabulary the rules are written
        in -- provided that (a) the spellings are pairwise different and (b) no other tucan source writes one of the
        spellings (old or normalised) as a literal in the place of a key, where it would have to agree with the constant."""
        raw = self.raw_text(ATTRIBUTE_NAMES_FILE)
        try:
            tree = ast.parse(raw)
        except SyntaxError:
            return raw, "not normalised (syntax error)"
        consts = []
        for st in tree.body:
            if isinstance(st, ast.Assign) and len(st.targets) == 1 and isinstance(st.targets[0], ast.Name) and st.targets[0].id.isupper() \
                    and isinstance(st.value, ast.Constant) and isinstance(st.value.value, str):
                consts.append((st.targets[0].id, st.value))
        actual = [v.value for _n, v in consts]
        roles = [n.lower() for n, _v in consts]
        if not consts or all(a == r for a, r in zip(actual, roles)):
            return raw, "spellings are the lower-case constant names already"
        if len(set(actual)) != len(actual):
            return raw, "not normalised: two constants share a spelling"
        words = set(actual) | set(roles)
        for rel in self.py_files():
            if rel == ATTRIBUTE_NAMES_FILE or rel in GENERATED:
                continue
            try:
                t2 = ast.parse(self.raw_text(rel))
            except SyntaxError:
                continue
            for n in ast.walk(t2):
                keys = []
                if isinstance(n, ast.Subscript) and isinstance(n.slice, ast.Constant):
                    keys.append(n.slice)
                elif isinstance(n, ast.Dict):
                    keys += [k for k in n.keys if isinstance(k, ast.Constant)]
                elif isinstance(n, ast.Compare) and isinstance(n.left, ast.Constant) and any(isinstance(o, (ast.In, ast.NotIn)) for o in n.ops):
                    keys.append(n.left)
                elif isinstance(n, ast.Call):
                    keys += [a for a in n.args if isinstance(a, ast.Constant)] + [k.value for k in n.keywords if isinstance(k.value, ast.Constant)]
                for k in keys:
                    if isinstance(k.value, str) and k.value in words:
                        return raw, f"not normalised: {rel}:{k.lineno} writes the spelling {k.value!r} as a literal"
        lines = raw.split("\n")
        # replace from the last constant to the first so that columns stay valid
        for name, v in sorted(consts, key=lambda c: (c[1].lineno, c[1].col_offset), reverse=True):
            if v.lineno != v.end_lineno:
                return raw, "not normalised (a spelling spans lines)"
            ln = lines[v.lineno - 1]
            b = ln.encode()
            lines[v.lineno - 1] = (b[:v.col_offset] + repr(name.lower()).encode() + b[v.end_col_offset:]).decode()
        changed = [f"{n}={a!r}" for (n, _v), a, r in zip(consts, actual, roles) if a != r]
        return "\n".join(lines), "read as the lower-case constant names: " + ", ".join(changed)

    def py_files(self) -> list[str]:
        out = set()
        for p in (self.root / "tucan").rglob("*.py"):
            out.add(str(p.relative_to(self.root)))
        for rel, t in self.overlay.items():
            if rel.endswith(".py") and rel.startswith("tucan/"):
                if t is None:
                    out.discard(rel)
                else:
                    out.add(rel)
        return sorted(out)

    def digest(self, rels: Iterable[str]) -> str:
        h = hashlib.sha256()
        for r in sorted(rels):
            h.update(r.encode())
            h.update(self.text(r).encode())
        return h.hexdigest()[:16]

    # ---- modules
    @staticmethod
    def modname(rel: str) -> str:
        p = rel[:-3].split("/")
        if p[-1] == "__init__":
            p = p[:-1]
        return ".".join(p)

    def rel_of(self, modname: str) -> Optional[str]:
        base = modname.replace(".", "/")
        for cand in (base + ".py", base + "/__init__.py"):
            if self.exists(cand):
                return cand
        return None

    def module(self, name: str) -> Module:
        if name not in self._mods:
            rel = self.rel_of(name)
            if rel is None:
                raise AnalysisError(f"module vanished: {name}")
            self._mods[name] = Module(self, name, rel, self.text(rel))
        return self._mods[name]

    def has_module(self, name: str) -> bool:
        return name.startswith("tucan") and self.rel_of(name) is not None

    def modules(self, include_generated: bool = False) -> list[Module]:
        out = []
        for rel in self.py_files():
            if not include_generated and rel in GENERATED:
                continue
            out.append(self.module(self.modname(rel)))
        return out

    def functions(self) -> dict[str, FuncInfo]:
        out = {}
        for m in self.modules():
            for fi in m.functions.values():
                out[fi.fq] = fi
        return out

    def func(self, fq: str) -> FuncInfo:
        mod, _, q = fq.rpartition(".")
        # method?  try module.qual and module.Class.method
        for split in range(1, 3):
            parts = fq.split(".")
            if len(parts) <= split:
                break
            mname, qual = ".".join(parts[:-split]), ".".join(parts[-split:])
            if self.has_module(mname):
                m = self.module(mname)
                if qual in m.functions:
                    return m.functions[qual]
        raise AnalysisError(f"anchor function vanished: {fq}")

    def find_func(self, fq: str) -> Optional[FuncInfo]:
        try:
            return self.func(fq)
        except AnalysisError:
            return None

    # ---- name resolution
    def resolve(self, module: Module, name: str, _depth: int = 0):
        """-> ('func', FuncInfo) | ('class', ClassInfo) | ('const', Module, name)
              | ('extmod', dotted) | ('ext', dotted) | ('builtin', name) | None"""
        if _depth > 8:
            return None
        if name in module.functions and "." not in name:
            return ("func", module.functions[name])
        if name in module.classes:
            return ("class", module.classes[name])
        if name in module.assigns:
            return ("const", module, name)
        if name in module.imports:
            mod, attr = module.imports[name]
            if attr is None:
                if self.has_module(mod):
                    return ("mod", self.module(mod))
                return ("extmod", mod)
            if self.has_module(mod):
                r = self.resolve(self.module(mod), attr, _depth + 1)
                if r is not None:
                    return r
                sub = f"{mod}.{attr}"
                if self.has_module(sub):
                    return ("mod", self.module(sub))
                return None
            return ("ext", f"{mod}.{attr}")
        import builtins
        if hasattr(builtins, name):
            return ("builtin", name)
        return None

    def resolve_dotted(self, module: Module, expr: ast.expr):
        """resolve Name / Attribute chains that denote module members"""
        if isinstance(expr, ast.Name):
            return self.resolve(module, expr.id)
        if isinstance(expr, ast.Attribute):
            base = self.resolve_dotted(module, expr.value)
            if base is None:
                return None
            if base[0] == "extmod":
                return ("ext", f"{base[1]}.{expr.attr}")
            if base[0] == "ext":
                return ("ext", f"{base[1]}.{expr.attr}")
            if base[0] == "mod":
                return self.resolve(base[1], expr.attr)
            if base[0] == "class":
                ci = base[1]
                if expr.attr in ci.methods:
                    return ("func", ci.methods[expr.attr])
                return ("classattr", ci, expr.attr)
        return None

    # ---- constants
    def const(self, module: Module | str, name: str):
        if isinstance(module, str):
            module = self.module(module)
        key = (module.name, name)
        if key not in self._consts:
            r = self.resolve(module, name)
            if r is None or r[0] != "const":
                raise NotConst(f"{module.name}.{name}")
            _, m, n = r
            k2 = (m.name, n)
            if k2 not in self._consts:
                if m.name in self._const_busy:
                    # asked for while the module's own top level is being evaluated: the single-assignment form only
                    return ConstEval(self, m).eval(m.assigns[n], {})
                ns = self.module_namespace(m)
                if n in ns:
                    self._consts[k2] = ns[n]
                else:
                    self._consts[k2] = ConstEval(self, m).eval(m.assigns[n], {})
            self._consts[key] = self._consts[k2]
        return self._consts[key]

    def module_namespace(self, m: Module) -> dict:
        """values of the module-level names of m obtained by running its top-level statements (assignments, loops,
        conditionals, calls of pure module functions) in the constant evaluator; names whose statements cannot be
        evaluated are absent"""
        if m.name not in self._mod_ns:
            self._const_busy.add(m.name)
            try:
                self._mod_ns[m.name] = ConstEval(self, m).run_module()
            finally:
                self._const_busy.discard(m.name)
        return self._mod_ns[m.name]

    def try_const(self, module: Module | str, name: str, default=None):
        try:
            return self.const(module, name)
        except (NotConst, AnalysisError):
            return default

    # ---- classes
    def class_of(self, module: Module, name: str) -> Optional[ClassInfo]:
        r = self.resolve(module, name)
        return r[1] if r and r[0] == "class" else None

    def base_names(self, ci: ClassInfo) -> list[str]:
        """fully-qualified names of (transitive) bases, tucan or external"""
        out, seen = [], set()
        work = [ci]
        while work:
            c = work.pop()
            for b in c.node.bases:
                r = self.resolve_dotted(c.module, b)
                if r is None:
                    out.append(norm(b))
                elif r[0] == "class":
                    if r[1].fq not in seen:
                        seen.add(r[1].fq)
                        out.append(r[1].fq)
                        work.append(r[1])
                elif r[0] == "ext":
                    out.append(r[1])
                elif r[0] == "generated_class":
                    out.append(r[1])
                else:
                    out.append(norm(b))
        return out

    def mro_method(self, ci: ClassInfo, name: str) -> Optional[FuncInfo]:
        seen = set()
        work = [ci]
        while work:
            c = work.pop(0)
            if c.fq in seen:
                continue
            seen.add(c.fq)
            if name in c.methods:
                return c.methods[name]
            for b in c.node.bases:
                r = self.resolve_dotted(c.module, b)
                if r and r[0] == "class":
                    work.append(r[1])
        return None

    # ---- call graph
    def callgraph(self) -> "CallGraph":
        if self._callgraph is None:
            self._callgraph = CallGraph(self)
        return self._callgraph


class ConstInst:
    """an instance of a tucan value class (NamedTuple / dataclass) inside the constant evaluator"""
    def __init__(self, ci, fields: dict):
        self.ci, self.fields = ci, fields

    def __iter__(self):
        return iter(self.fields.values())

    def __eq__(self, other):
        return isinstance(other, ConstInst) and other.ci is self.ci and other.fields == self.fields

    def __hash__(self):
        return hash((self.ci.fq, tuple(self.fields.values())))

    def __repr__(self):
        return f"{self.ci.name}({', '.join(f'{k}={v!r}' for k, v in self.fields.items())})"


class ConstClassRef:
    def __init__(self, ci):
        self.ci = ci


class ConstEval:
    """Pure evaluator for module-level constant expressions.  Supports exactly
    the forms needed for tucan's tables; anything else raises NotConst."""

    SAFE_CALLS = {"range": range, "len": len, "zip": zip, "dict": dict, "list": list, "tuple": tuple,
                  "sorted": sorted, "set": set, "frozenset": frozenset, "enumerate": enumerate, "str": str,
                  "int": int, "reversed": reversed, "min": min, "max": max, "sum": sum, "slice": slice, "bool": bool, "abs": abs}
    SAFE_METHODS = {"items", "keys", "values", "get", "replace", "split", "strip", "lower", "upper", "join", "copy", "index"}

    def __init__(self, repo: Repo, module: Module, hook=None):
        self.repo, self.m = repo, module
        self.hook = hook        # hook(FuncInfo, args, kwargs) -> value | NotImplemented, consulted before a tucan function is interpreted

    def eval(self, e: ast.expr, env: dict):
        f = getattr(self, "e_" + type(e).__name__, None)
        if f is None:
            raise NotConst(type(e).__name__)
        return f(e, env)

    def e_Constant(self, e, env):
        return e.value

    def e_Name(self, e, env):
        if e.id in env:
            return env[e.id]
        if e.id in getattr(self, "_poisoned", ()):
            raise NotConst(e.id)
        r = self.repo.resolve(self.m, e.id)
        if r and r[0] == "const":
            return self.repo.const(r[1], r[2])
        if e.id in ("True", "False", "None"):
            return {"True": True, "False": False, "None": None}[e.id]
        raise NotConst(e.id)

    def e_List(self, e, env):
        return [self.eval(x, env) for x in e.elts]

    def e_Tuple(self, e, env):
        return tuple(self.eval(x, env) for x in e.elts)

    def e_Set(self, e, env):
        return {self.eval(x, env) for x in e.elts}

    def e_Dict(self, e, env):
        out = {}
        for k, v in zip(e.keys, e.values):
            if k is None:
                out.update(self.eval(v, env))
            else:
                out[self.eval(k, env)] = self.eval(v, env)
        return out

    def e_UnaryOp(self, e, env):
        v = self.eval(e.operand, env)
        if isinstance(e.op, ast.USub):
            return -v
        if isinstance(e.op, ast.Not):
            return not v
        if isinstance(e.op, ast.UAdd):
            return +v
        raise NotConst("unary")

    def e_BinOp(self, e, env):
        a, b = self.eval(e.left, env), self.eval(e.right, env)
        ops = {ast.Add: lambda: a + b, ast.Sub: lambda: a - b, ast.Mult: lambda: a * b, ast.BitOr: lambda: a | b,
               ast.Mod: lambda: a % b, ast.FloorDiv: lambda: a // b}
        for k, fn in ops.items():
            if isinstance(e.op, k):
                return fn()
        raise NotConst("binop")

    def e_Compare(self, e, env):
        left = self.eval(e.left, env)
        for op, c in zip(e.ops, e.comparators):
            r = self.eval(c, env)
            ok = {ast.Eq: lambda: left == r, ast.NotEq: lambda: left != r, ast.Lt: lambda: left < r, ast.LtE: lambda: left <= r,
                  ast.Gt: lambda: left > r, ast.GtE: lambda: left >= r, ast.In: lambda: left in r, ast.NotIn: lambda: left not in r,
                  ast.Is: lambda: left is r, ast.IsNot: lambda: left is not r}[type(op)]()
            if not ok:
                return False
            left = r
        return True

    def e_IfExp(self, e, env):
        return self.eval(e.body, env) if self.eval(e.test, env) else self.eval(e.orelse, env)

    def e_Subscript(self, e, env):
        b = self.eval(e.value, env)
        if isinstance(e.slice, ast.Slice):
            lo = self.eval(e.slice.lower, env) if e.slice.lower else None
            hi = self.eval(e.slice.upper, env) if e.slice.upper else None
            st = self.eval(e.slice.step, env) if e.slice.step else None
            return b[lo:hi:st]
        return b[self.eval(e.slice, env)]

    def e_JoinedStr(self, e, env):
        out = ""
        for p in e.values:
            if isinstance(p, ast.Constant):
                out += p.value
            else:
                if p.format_spec is not None or p.conversion != -1:
                    spec = self.eval(p.format_spec, env) if p.format_spec else ""
                    out += format(self.eval(p.value, env), spec)
                else:
                    out += format(self.eval(p.value, env))
        return out

    def e_Attribute(self, e, env):
        root = e
        while isinstance(root, (ast.Attribute, ast.Subscript, ast.Call)):
            root = root.func if isinstance(root, ast.Call) else root.value
        if isinstance(root, ast.Name) and root.id in env:
            recv = self.eval(e.value, env)
            if isinstance(recv, ConstInst):
                if e.attr in recv.fields:
                    return recv.fields[e.attr]
                m = self.repo.mro_method(recv.ci, e.attr)
                if m is not None and any(norm(d).split(".")[-1] in ("property", "cached_property") for d in m.node.decorator_list):
                    return self.call_function(m, [recv], {})
                raise NotConst(norm(e))
            if isinstance(recv, slice) and e.attr in ("start", "stop", "step"):
                return getattr(recv, e.attr)
            raise NotConst(norm(e))
        r = self.repo.resolve_dotted(self.m, e)
        if r and r[0] == "const":
            return self.repo.const(r[1], r[2])
        raise NotConst(norm(e))

    def _value_class_fields(self, ci) -> Optional[list]:
        """field names of a NamedTuple / dataclass without a hand-written __init__/__new__, else None"""
        bases = self.repo.base_names(ci)
        decos = [norm(d).split("(")[0].split(".")[-1] for d in ci.node.decorator_list]
        if not (any(b.split(".")[-1] == "NamedTuple" for b in bases) or "dataclass" in decos):
            return None
        if "__init__" in ci.methods or "__new__" in ci.methods or "__post_init__" in ci.methods:
            return None
        return [st.target.id for st in ci.node.body if isinstance(st, ast.AnnAssign) and isinstance(st.target, ast.Name)]

    def _construct(self, ci, args, kwargs):
        fields = self._value_class_fields(ci)
        if fields is None:
            raise NotConst(f"class {ci.name}")
        vals = {}
        defaults = {st.target.id: st.value for st in ci.node.body if isinstance(st, ast.AnnAssign) and isinstance(st.target, ast.Name) and st.value is not None}
        for i, f in enumerate(fields):
            if i < len(args):
                vals[f] = args[i]
            elif f in kwargs:
                vals[f] = kwargs[f]
            elif f in defaults:
                vals[f] = ConstEval(self.repo, ci.module).eval(defaults[f], {})
            else:
                raise NotConst("missing field")
        return ConstInst(ci, vals)

    def e_Call(self, e, env):
        if isinstance(e.func, ast.Name) and isinstance(env.get(e.func.id), ConstClassRef):
            return self._construct(env[e.func.id].ci, [self.eval(a, env) for a in e.args], {k.arg: self.eval(k.value, env) for k in e.keywords})
        # method of a value-class instance held in a local
        if isinstance(e.func, ast.Attribute):
            root = e.func.value
            while isinstance(root, (ast.Attribute, ast.Subscript, ast.Call)):
                root = root.func if isinstance(root, ast.Call) else root.value
            if isinstance(root, ast.Name) and root.id in env:
                recv = self.eval(e.func.value, env)
                if isinstance(recv, ConstInst):
                    m = self.repo.mro_method(recv.ci, e.func.attr)
                    if m is None:
                        if e.func.attr == "_asdict":
                            return dict(recv.fields)
                        raise NotConst(norm(e.func))
                    return self.call_function(m, [recv] + [self.eval(a, env) for a in e.args], {k.arg: self.eval(k.value, env) for k in e.keywords})
        if isinstance(e.func, ast.Name) and e.func.id == "map" and "map" not in env and len(e.args) >= 2 and not e.keywords:
            seqs = [list(self.eval(a, env)) for a in e.args[1:]]
            fexpr = e.args[0]
            out = []
            for tup in zip(*seqs):
                call = ast.Call(fexpr, [ast.Name(f"__map_arg{i}", ast.Load()) for i in range(len(tup))], [])
                out.append(self.eval(ast.copy_location(call, e), {**env, **{f"__map_arg{i}": v for i, v in enumerate(tup)}}))
            return out
        if isinstance(e.func, (ast.Name, ast.Attribute)) and not (isinstance(e.func, ast.Name) and e.func.id in env):
            r0 = self.repo.resolve_dotted(self.m, e.func) if not (isinstance(e.func, ast.Attribute) and not isinstance(e.func.value, ast.Name)) else None
            if r0 and r0[0] == "class":
                return self._construct(r0[1], [self.eval(a, env) for a in e.args], {k.arg: self.eval(k.value, env) for k in e.keywords})
            r = self.repo.resolve_dotted(self.m, e.func) if not (isinstance(e.func, ast.Attribute) and not isinstance(e.func.value, ast.Name)) else None
            if r and r[0] == "func" and (r[1].cls is None or (isinstance(e.func, ast.Attribute) and any(norm(d) in ("staticmethod", "classmethod") for d in r[1].node.decorator_list))):
                if any(k.arg is None for k in e.keywords):
                    raise NotConst("star args")
                argv = []
                for a in e.args:
                    if isinstance(a, ast.Starred):
                        argv.extend(list(self.eval(a.value, env)))
                    else:
                        argv.append(self.eval(a, env))
                if r[1].cls is not None and any(norm(d) == "classmethod" for d in r[1].node.decorator_list):
                    argv = [ConstClassRef(r[1].cls)] + argv
                return self.call_function(r[1], argv, {k.arg: self.eval(k.value, env) for k in e.keywords})
        if isinstance(e.func, ast.Name) and e.func.id == "enumerate" and e.func.id not in env and e.keywords:
            kw = {k.arg: self.eval(k.value, env) for k in e.keywords}
            return list(enumerate(*[self.eval(a, env) for a in e.args], **kw))
        if isinstance(e.func, ast.Attribute) and e.func.attr in self.MUTATORS:
            root = e.func.value
            while isinstance(root, (ast.Subscript, ast.Attribute)):
                root = root.value
            if isinstance(root, ast.Name) and root.id in env and not e.keywords:
                recv = self.eval(e.func.value, env)
                if isinstance(recv, (dict, list, set)):
                    return getattr(recv, e.func.attr)(*[self.eval(a, env) for a in e.args])
        if e.keywords and not (isinstance(e.func, ast.Name) and e.func.id == "sorted"):
            raise NotConst("kwargs")
        if isinstance(e.func, ast.Name) and e.func.id in self.SAFE_CALLS and e.func.id not in env:
            args = [self.eval(a, env) for a in e.args]
            kw = {k.arg: self.eval(k.value, env) for k in e.keywords}
            if "key" in kw:
                raise NotConst("sorted key")
            return self.SAFE_CALLS[e.func.id](*args, **kw)
        if isinstance(e.func, ast.Attribute) and e.func.attr in self.SAFE_METHODS:
            recv = self.eval(e.func.value, env)
            if not isinstance(recv, (dict, str, list, tuple)):
                raise NotConst("method on " + type(recv).__name__)
            return getattr(recv, e.func.attr)(*[self.eval(a, env) for a in e.args])
        raise NotConst(norm(e.func))

    # ---- statements (module top level and bodies of pure helper functions)
    MUTATORS = {"append", "extend", "insert", "add", "update", "setdefault", "pop", "remove", "discard", "clear", "sort", "reverse"}
    _steps = 0
    _depth = 0

    class _Ret(Exception):
        def __init__(self, v):
            self.v = v

    class _Brk(Exception):
        pass

    class _Cont(Exception):
        pass

    def _tick(self):
        ConstEval._steps += 1
        if ConstEval._steps > 400000:
            raise NotConst("evaluation budget exhausted")

    def run_module(self) -> dict:
        ConstEval._steps = 0
        env: dict = {}
        poisoned: set = set()
        self._poisoned = poisoned
        for st in self.m.tree.body:
            if isinstance(st, (ast.FunctionDef, ast.AsyncFunctionDef, ast.ClassDef, ast.Import, ast.ImportFrom)):
                continue
            if isinstance(st, ast.Expr) and isinstance(st.value, ast.Constant):
                continue
            if isinstance(st, ast.If) and "__name__" in norm(st.test):
                continue
            try:
                self._exec([st], env, top=True)
            except (NotConst, TypeError, KeyError, IndexError, ValueError, AttributeError, ZeroDivisionError, RecursionError,
                    ConstEval._Ret, ConstEval._Brk, ConstEval._Cont):
                for n in ast.walk(st):
                    if isinstance(n, ast.Name) and isinstance(n.ctx, (ast.Store, ast.Del)):
                        env.pop(n.id, None)
                        poisoned.add(n.id)
                    # a statement that may have mutated a table half way leaves it unknown
                    if isinstance(n, ast.Call) and isinstance(n.func, ast.Attribute) and isinstance(n.func.value, ast.Name) and n.func.attr in self.MUTATORS:
                        env.pop(n.func.value.id, None)
                        poisoned.add(n.func.value.id)
                    if isinstance(n, ast.Subscript) and isinstance(n.ctx, (ast.Store, ast.Del)) and isinstance(n.value, ast.Name):
                        env.pop(n.value.id, None)
                        poisoned.add(n.value.id)
        self._poisoned = set()
        return {k: v for k, v in env.items() if k not in poisoned}

    def _exec(self, stmts, env, top=False):
        for st in stmts:
            self._tick()
            if isinstance(st, ast.Assign):
                v = self.eval(st.value, env)
                for t in st.targets:
                    self._store(t, v, env)
            elif isinstance(st, ast.AnnAssign):
                if st.value is not None:
                    self._store(st.target, self.eval(st.value, env), env)
            elif isinstance(st, ast.AugAssign):
                cur = self.eval(ast.copy_location(_as_load(st.target), st.target), env)
                new = self.e_BinOp(ast.BinOp(ast.Constant(cur), st.op, ast.Constant(self.eval(st.value, env))), env)
                self._store(st.target, new, env)
            elif isinstance(st, ast.For):
                broke = False
                for item in self.eval(st.iter, env):
                    self._tick()
                    self._bind(st.target, item, env)
                    try:
                        self._exec(st.body, env)
                    except ConstEval._Brk:
                        broke = True
                        break
                    except ConstEval._Cont:
                        continue
                if not broke:
                    self._exec(st.orelse, env)
            elif isinstance(st, ast.While):
                while self.eval(st.test, env):
                    self._tick()
                    try:
                        self._exec(st.body, env)
                    except ConstEval._Brk:
                        break
                    except ConstEval._Cont:
                        continue
            elif isinstance(st, ast.If):
                self._exec(st.body if self.eval(st.test, env) else st.orelse, env)
            elif isinstance(st, ast.Expr):
                self.eval(st.value, env)
            elif isinstance(st, ast.Return):
                raise ConstEval._Ret(self.eval(st.value, env) if st.value is not None else None)
            elif isinstance(st, ast.Break):
                raise ConstEval._Brk()
            elif isinstance(st, ast.Continue):
                raise ConstEval._Cont()
            elif isinstance(st, ast.Pass):
                pass
            elif isinstance(st, ast.Delete):
                for t in st.targets:
                    if isinstance(t, ast.Name):
                        env.pop(t.id, None)
                    elif isinstance(t, ast.Subscript):
                        del self.eval(t.value, env)[self.eval(t.slice, env)]
                    else:
                        raise NotConst("del target")
            elif isinstance(st, ast.Assert):
                if not self.eval(st.test, env):
                    raise NotConst("assertion fails")
            else:
                raise NotConst(type(st).__name__)

    def _store(self, t, v, env):
        if isinstance(t, ast.Name):
            env[t.id] = v
        elif isinstance(t, (ast.Tuple, ast.List)):
            self._bind(t, v, env)
        elif isinstance(t, ast.Subscript):
            root = t.value
            while isinstance(root, (ast.Subscript, ast.Attribute)):
                root = root.value
            if not (isinstance(root, ast.Name) and root.id in env):
                raise NotConst("store into a non-local object")
            self.eval(t.value, env)[self.eval(t.slice, env)] = v
        else:
            raise NotConst("store target")

    def call_function(self, fi: "FuncInfo", args: list, kwargs: dict):
        if ConstEval._depth > 6:
            raise NotConst("call depth")
        fn = fi.node
        if self.hook is not None:
            hv = self.hook(fi, args, kwargs)
            if hv is not NotImplemented:
                return hv
        if fn.args.vararg or fn.args.kwarg or any(isinstance(d, (ast.Yield, ast.YieldFrom, ast.Global, ast.Nonlocal)) for d in ast.walk(fn)):
            raise NotConst("function form")
        sub = ConstEval(self.repo, fi.module, self.hook)
        env: dict = {}
        params = [a.arg for a in fn.args.posonlyargs + fn.args.args]
        defaults = fn.args.defaults
        for i, p in enumerate(params):
            if i < len(args):
                env[p] = args[i]
            elif p in kwargs:
                env[p] = kwargs[p]
            else:
                di = i - (len(params) - len(defaults))
                if not 0 <= di < len(defaults):
                    raise NotConst("missing argument")
                env[p] = sub.eval(defaults[di], {})
        for a, d in zip(fn.args.kwonlyargs, fn.args.kw_defaults):
            if a.arg in kwargs:
                env[a.arg] = kwargs[a.arg]
            elif d is not None:
                env[a.arg] = sub.eval(d, {})
            else:
                raise NotConst("missing argument")
        ConstEval._depth += 1
        try:
            sub._exec(fn.body, env)
        except ConstEval._Ret as r:
            return r.v
        finally:
            ConstEval._depth -= 1
        return None

    def _comp(self, gens, env, emit):
        def rec(i, env):
            if i == len(gens):
                emit(env)
                return
            g = gens[i]
            for item in self.eval(g.iter, env):
                env2 = dict(env)
                self._bind(g.target, item, env2)
                if all(self.eval(c, env2) for c in g.ifs):
                    rec(i + 1, env2)
        rec(0, dict(env))

    def _bind(self, tgt, val, env):
        if isinstance(tgt, ast.Name):
            env[tgt.id] = val
        elif isinstance(tgt, (ast.Tuple, ast.List)):
            vals = list(val)
            if len(vals) != len(tgt.elts):
                raise NotConst("unpack")
            for t, v in zip(tgt.elts, vals):
                self._bind(t, v, env)
        else:
            raise NotConst("target")

    def e_ListComp(self, e, env):
        out = []
        self._comp(e.generators, env, lambda en: out.append(self.eval(e.elt, en)))
        return out

    e_GeneratorExp = e_ListComp

    def e_SetComp(self, e, env):
        out = set()
        self._comp(e.generators, env, lambda en: out.add(self.eval(e.elt, en)))
        return out

    def e_DictComp(self, e, env):
        out = {}
        def emit(en):
            out[self.eval(e.key, en)] = self.eval(e.value, en)
        self._comp(e.generators, env, emit)
        return out


def desugar_match(st: "ast.Match"):
    """An if/elif chain equivalent to a match statement whose patterns are literals, alternatives of literals, a capture
    or the wildcard (with optional guards); None for structural patterns."""
    subj = st.subject
    chain = None
    tail = None
    for case in st.cases:
        pat = case.pattern
        pre = []
        if isinstance(pat, ast.MatchValue):
            test = ast.Compare(subj, [ast.Eq()], [pat.value])
        elif isinstance(pat, ast.MatchSingleton):
            test = ast.Compare(subj, [ast.Is()], [ast.Constant(pat.value)])
        elif isinstance(pat, ast.MatchOr) and all(isinstance(p, ast.MatchValue) for p in pat.patterns):
            test = ast.BoolOp(ast.Or(), [ast.Compare(subj, [ast.Eq()], [p.value]) for p in pat.patterns])
        elif isinstance(pat, ast.MatchAs) and pat.pattern is None:
            test = ast.Constant(True)
            if pat.name:
                pre = [ast.Assign([ast.Name(pat.name, ast.Store())], subj)]
        else:
            return None
        if case.guard is not None:
            if pre:
                return None
            test = ast.BoolOp(ast.And(), [test, case.guard])
        node = ast.If(test, pre + list(case.body), [])
        ast.copy_location(node, case.body[0])
        ast.fix_missing_locations(node)
        if chain is None:
            chain = node
        else:
            tail.orelse = [node]
        tail = node
    return chain


def _as_load(t: ast.expr) -> ast.expr:
    t2 = ast.parse(norm(t), mode="eval").body
    return t2


# ---------------------------------------------------------------------------
# light local types + call resolution


def annotation_name(a: ast.expr | None) -> Optional[str]:
    if a is None:
        return None
    if isinstance(a, ast.Constant) and isinstance(a.value, str):
        try:
            return annotation_name(ast.parse(a.value, mode="eval").body)
        except SyntaxError:
            return None
    if isinstance(a, (ast.Name, ast.Attribute)):
        return norm(a)
    if isinstance(a, ast.Subscript):
        return annotation_name(a.value)
    return None


class LocalTypes:
    """flow-insensitive light types of the locals of one function: a name maps
    to a tucan ClassInfo, or to a dotted external type name"""

    def __init__(self, repo: Repo, fi: FuncInfo):
        self.repo, self.fi = repo, fi
        self.types: dict[str, Any] = {}
        m = fi.module
        args = fi.node.args
        for a in args.posonlyargs + args.args + args.kwonlyargs:
            t = self._resolve_type(annotation_name(a.annotation))
            if t is not None:
                self.types[a.arg] = t
        if fi.cls is not None and args.args:
            first = args.args[0].arg
            self.types[first] = fi.cls
        for _ in range(2):
            for n in ast.walk(fi.node):
                if isinstance(n, ast.Assign) and len(n.targets) == 1 and isinstance(n.targets[0], ast.Name):
                    t = self.type_of(n.value)
                    if t is not None:
                        self.types[n.targets[0].id] = t
                elif isinstance(n, ast.AnnAssign) and isinstance(n.target, ast.Name):
                    t = self._resolve_type(annotation_name(n.annotation))
                    if t is None and n.value is not None:
                        t = self.type_of(n.value)
                    if t is not None:
                        self.types[n.target.id] = t
                elif isinstance(n, ast.NamedExpr):
                    t = self.type_of(n.value)
                    if t is not None:
                        self.types[n.target.id] = t

    def _resolve_type(self, name: Optional[str]):
        if not name:
            return None
        try:
            expr = ast.parse(name, mode="eval").body
        except SyntaxError:
            return None
        r = self.repo.resolve_dotted(self.fi.module, expr)
        if r is None:
            return None
        if r[0] == "class":
            return r[1]
        if r[0] == "ext":
            return r[1]
        if r[0] == "builtin":
            return r[1]
        return None

    def type_of(self, e: ast.expr):
        if isinstance(e, ast.Name):
            return self.types.get(e.id)
        if isinstance(e, ast.Call):
            r = self.repo.resolve_dotted(self.fi.module, e.func)
            if r is None:
                if isinstance(e.func, ast.Attribute):
                    rt = self.type_of(e.func.value)
                    if isinstance(rt, ClassInfo):
                        mfi = self.repo.mro_method(rt, e.func.attr)
                        if mfi is not None:
                            return self._ret_type(mfi)
                    if isinstance(rt, str):
                        return EXT_METHOD_RETURNS.get((rt, e.func.attr))
                return None
            if r[0] == "class":
                return r[1]
            if r[0] == "func":
                return self._ret_type(r[1])
            if r[0] == "ext":
                return EXT_CALL_RETURNS.get(r[1], r[1] if r[1].split(".")[-1][:1].isupper() else None)
            if r[0] == "builtin":
                return r[1] if r[1] in ("list", "dict", "set", "tuple", "str", "int", "float", "frozenset") else None
        if isinstance(e, ast.List) or isinstance(e, ast.ListComp):
            return "list"
        if isinstance(e, (ast.Dict, ast.DictComp)):
            return "dict"
        if isinstance(e, (ast.Set, ast.SetComp)):
            return "set"
        if isinstance(e, ast.JoinedStr) or (isinstance(e, ast.Constant) and isinstance(e.value, str)):
            return "str"
        return None

    def _ret_type(self, fi: FuncInfo):
        name = annotation_name(fi.node.returns)
        if not name:
            return None
        try:
            expr = ast.parse(name, mode="eval").body
        except SyntaxError:
            return None
        r = self.repo.resolve_dotted(fi.module, expr)
        if r and r[0] == "class":
            return r[1]
        if r and r[0] == "ext":
            return r[1]
        if r and r[0] == "builtin":
            return r[1]
        return None


EXT_CALL_RETURNS = {
    "networkx.relabel_nodes": "networkx.Graph",
    "networkx.convert_node_labels_to_integers": "networkx.Graph",
    "igraph.Graph.from_networkx": "igraph.Graph",
    "collections.deque": "collections.deque",
    "collections.Counter": "collections.Counter",
}
EXT_METHOD_RETURNS = {
    ("networkx.Graph", "copy"): "networkx.Graph",
    ("igraph.Graph", "permute_vertices"): "igraph.Graph",
}


@dataclass
class CallSite:
    caller: FuncInfo
    node: ast.Call
    kind: str                 # 'tucan' | 'ext' | 'builtin' | 'method' | 'ctor' | 'param' | 'unknown'
    target: Any               # FuncInfo | dotted name | (recvtype, attr)

    def __repr__(self):
        t = self.target.fq if isinstance(self.target, FuncInfo) else self.target
        return f"<call {self.kind} {t} at {self.caller.loc(self.node)}>"


class CallGraph:
    def __init__(self, repo: Repo):
        self.repo = repo
        self.funcs = repo.functions()
        self.sites: dict[str, list[CallSite]] = {}
        self.edges: dict[str, set[str]] = {}
        self.ltypes: dict[str, LocalTypes] = {}
        for fq, fi in self.funcs.items():
            self._scan(fi)

    def local_types(self, fi: FuncInfo) -> LocalTypes:
        if fi.fq not in self.ltypes:
            self.ltypes[fi.fq] = LocalTypes(self.repo, fi)
        return self.ltypes[fi.fq]

    def _own_nodes(self, fi: FuncInfo):
        """ast nodes of fi excluding bodies of nested function definitions"""
        stack = list(ast.iter_child_nodes(fi.node))
        while stack:
            n = stack.pop()
            yield n
            if isinstance(n, (ast.FunctionDef, ast.AsyncFunctionDef)):
                continue
            stack.extend(ast.iter_child_nodes(n))

    def _scan(self, fi: FuncInfo):
        lt = self.local_types(fi)
        sites, edges = [], set()
        params = {a.arg for a in fi.node.args.args + fi.node.args.kwonlyargs + fi.node.args.posonlyargs}
        for n in self._own_nodes(fi):
            if isinstance(n, (ast.FunctionDef, ast.AsyncFunctionDef)):
                q2 = f"{fi.qualname}.<locals>.{n.name}"
                if q2 in fi.module.functions:
                    edges.add(fi.module.functions[q2].fq)
                continue
            if isinstance(n, ast.Name) and isinstance(n.ctx, ast.Load) and n.id not in params and n.id in fi.module.assigns:
                # a module-level table that holds tucan functions (a dispatch table): using the table may call them
                tbl = fi.module.assigns[n.id]
                if isinstance(tbl, (ast.Tuple, ast.List, ast.Dict, ast.Set)):
                    for x in ast.walk(tbl):
                        if isinstance(x, (ast.Name, ast.Attribute)) and isinstance(getattr(x, "ctx", None), ast.Load):
                            try:
                                r = self.repo.resolve_dotted(fi.module, x)
                            except (NameError, UnboundLocalError):
                                raise
                            except Exception:
                                r = None
                            if r and r[0] == "func":
                                edges.add(r[1].fq)
            if isinstance(n, (ast.Return, ast.Assign, ast.AnnAssign)) and isinstance(getattr(n, "value", None), (ast.Name, ast.Attribute)) \
                    and not (isinstance(n.value, ast.Name) and n.value.id in params):
                # a tucan function handed back or kept under a name (`return reader_for_v3000`): whoever gets it may call it
                try:
                    r = self.repo.resolve_dotted(fi.module, n.value)
                except (NameError, UnboundLocalError):
                    raise
                except Exception:
                    r = None
                if r and r[0] == "func":
                    edges.add(r[1].fq)
            if isinstance(n, ast.Attribute) and isinstance(n.ctx, ast.Load):
                # reading a property of a tucan class runs its getter
                t = lt.type_of(n.value)
                if isinstance(t, ClassInfo):
                    m = self.repo.mro_method(t, n.attr)
                    if m is not None and any(norm(d).split(".")[-1] in ("property", "cached_property") for d in m.node.decorator_list):
                        edges.add(m.fq)
            if not isinstance(n, ast.Call):
                continue
            cs = self.resolve_call(fi, n, lt, params)
            sites.append(cs)
            if cs.kind == "tucan":
                edges.add(cs.target.fq)
            elif cs.kind == "ctor":
                init = self.repo.mro_method(cs.target, "__init__")
                if init is not None:
                    edges.add(init.fq)
            # a tucan function handed to a call (map(f, xs), partial(f, …), sorted(key=f)) may be called from here
            for a in list(n.args) + [k.value for k in n.keywords]:
                if isinstance(a, (ast.Name, ast.Attribute)) and not (isinstance(a, ast.Name) and a.id in params):
                    try:
                        r = self.repo.resolve_dotted(fi.module, a)
                    except (NameError, UnboundLocalError):
                        raise
                    except Exception:
                        r = None
                    if r and r[0] == "func":
                        edges.add(r[1].fq)
            # callback roots: walker.walk(listener, tree) reaches every enter*/exit* of the listener's class
            if isinstance(n.func, ast.Attribute) and n.func.attr == "walk" and n.args:
                t = lt.type_of(n.args[0])
                if isinstance(t, ClassInfo):
                    for mname, mfi in t.methods.items():
                        if mname.startswith(("enter", "exit", "visit")):
                            edges.add(mfi.fq)
        self.sites[fi.fq] = sites
        self.edges[fi.fq] = edges

    def resolve_call(self, fi: FuncInfo, n: ast.Call, lt: LocalTypes, params: set[str]) -> CallSite:
        f = n.func
        if isinstance(f, ast.Name):
            # a function defined inside this function (or inside an enclosing one)
            q = fi.qualname
            while True:
                cand = f"{q}.<locals>.{f.id}"
                if cand in fi.module.functions:
                    return CallSite(fi, n, "tucan", fi.module.functions[cand])
                if ".<locals>." not in q:
                    break
                q = q.rsplit(".<locals>.", 1)[0]
            if f.id in params and f.id not in fi.module.functions:
                return CallSite(fi, n, "param", f.id)
            r = self.repo.resolve(fi.module, f.id)
            if r is None:
                return CallSite(fi, n, "unknown", f.id)
            if r[0] == "func":
                return CallSite(fi, n, "tucan", r[1])
            if r[0] == "class":
                return CallSite(fi, n, "ctor", r[1])
            if r[0] == "ext":
                return CallSite(fi, n, "ext", r[1])
            if r[0] == "builtin":
                return CallSite(fi, n, "builtin", r[1])
            return CallSite(fi, n, "unknown", f.id)
        if isinstance(f, ast.Attribute):
            r = self.repo.resolve_dotted(fi.module, f)
            if r is not None:
                if r[0] == "func":
                    return CallSite(fi, n, "tucan", r[1])
                if r[0] == "class":
                    return CallSite(fi, n, "ctor", r[1])
                if r[0] == "ext":
                    return CallSite(fi, n, "ext", r[1])
            rt = lt.type_of(f.value)
            if isinstance(rt, ClassInfo):
                mfi = self.repo.mro_method(rt, f.attr)
                if mfi is not None:
                    return CallSite(fi, n, "tucan", mfi)
                return CallSite(fi, n, "method", (rt.fq, f.attr))
            return CallSite(fi, n, "method", (rt if isinstance(rt, str) else None, f.attr))
        return CallSite(fi, n, "unknown", norm(f))

    def closure(self, roots: Iterable[str]) -> list[str]:
        seen, work = [], list(roots)
        s = set()
        while work:
            q = work.pop(0)
            if q in s or q not in self.funcs:
                continue
            s.add(q)
            seen.append(q)
            work.extend(sorted(self.edges.get(q, ())))
        return seen

    def sccs(self, nodes: Iterable[str]) -> list[list[str]]:
        """Tarjan; returns SCCs that contain a cycle (size>1 or self-loop)"""
        nodes = list(nodes)
        nset = set(nodes)
        index, low, onst, st, out = {}, {}, set(), [], []
        counter = [0]

        def strong(v):
            work = [(v, iter(sorted(self.edges.get(v, ()) & nset)))]
            index[v] = low[v] = counter[0]; counter[0] += 1; st.append(v); onst.add(v)
            while work:
                u, it = work[-1]
                adv = False
                for w in it:
                    if w not in index:
                        index[w] = low[w] = counter[0]; counter[0] += 1; st.append(w); onst.add(w)
                        work.append((w, iter(sorted(self.edges.get(w, ()) & nset))))
                        adv = True
                        break
                    elif w in onst:
                        low[u] = min(low[u], index[w])
                if adv:
                    continue
                work.pop()
                if work:
                    p = work[-1][0]
                    low[p] = min(low[p], low[u])
                if low[u] == index[u]:
                    comp = []
                    while True:
                        w = st.pop(); onst.discard(w); comp.append(w)
                        if w == u:
                            break
                    if len(comp) > 1 or u in self.edges.get(u, ()):
                        out.append(sorted(comp))
        for v in nodes:
            if v not in index:
                strong(v)
        return out

    def callers_of(self, fq: str) -> list[CallSite]:
        out = []
        for sites in self.sites.values():
            for cs in sites:
                if cs.kind == "tucan" and cs.target.fq == fq:
                    out.append(cs)
        return out

    def const_loop_envs(self, fi: FuncInfo, node: ast.AST) -> list[dict]:
        """bindings of the variables that loops / comprehensions enclosing `node` iterate over constant containers
        (tuple targets are unpacked); [{}] when there is none"""
        parents = getattr(fi, "_parents", None)
        if parents is None:
            parents = {}
            for n in ast.walk(fi.node):
                for c in ast.iter_child_nodes(n):
                    parents[id(c)] = n
            try:
                fi._parents = parents
            except (NameError, UnboundLocalError):
                raise
            except Exception:
                pass
        envs = [{}]
        cur = node
        ce = ConstEval(self.repo, fi.module)
        while id(cur) in parents:
            cur = parents[id(cur)]
            gens = []
            if isinstance(cur, ast.For):
                gens = [(cur.target, cur.iter)]
            elif isinstance(cur, (ast.ListComp, ast.SetComp, ast.DictComp, ast.GeneratorExp)):
                gens = [(g.target, g.iter) for g in cur.generators]
            for tg, it in gens:
                try:
                    c = ce.eval(it, {})
                except (NotConst, TypeError, KeyError, IndexError, ValueError):
                    continue
                if isinstance(c, dict):
                    c = list(c)
                if not (isinstance(c, (set, frozenset, list, tuple)) and 0 < len(c) <= 12):
                    continue
                vals = sorted(c) if isinstance(c, (set, frozenset)) else list(c)
                new = []
                for e in envs:
                    for v in vals:
                        b = dict(e)
                        if isinstance(tg, ast.Name):
                            b[tg.id] = v
                        elif isinstance(tg, (ast.Tuple, ast.List)) and isinstance(v, (tuple, list)) and len(v) == len(tg.elts) and all(isinstance(x, ast.Name) for x in tg.elts):
                            for x, vv in zip(tg.elts, v):
                                b[x.id] = vv
                        else:
                            b = None
                        if b is not None:
                            new.append(b)
                if new:
                    envs = new
        return envs

    def param_values(self, fi: FuncInfo, param: str, within: Optional[set[str]] = None, _depth=0) -> Optional[set]:
        """interprocedural constant propagation for one parameter: the set of
        constant values the call sites (optionally only those inside `within`)
        pass; None if some site passes a non-constant."""
        if _depth > 6:
            return None
        names = [a.arg for a in fi.node.args.args]
        if param not in names:
            return None
        idx = names.index(param)
        if fi.cls is not None:
            idx -= 1  # bound call drops self
        vals: set = set()
        sites = [cs for cs in self.callers_of(fi.fq) if within is None or cs.caller.fq in within]
        if not sites:
            # an entry point nobody in the repository calls with this parameter: its constant default, if it has one (the
            # properties speak about the library called the way its own code and documentation call it)
            d = fi.node.args.defaults
            di = names.index(param) - (len(names) - len(d))
            if 0 <= di < len(d):
                try:
                    return {ConstEval(self.repo, fi.module).eval(d[di], {})}
                except (NotConst, TypeError):
                    return None
            return None
        for cs in sites:
            arg = None
            if idx < len(cs.node.args):
                arg = cs.node.args[idx]
            for k in cs.node.keywords:
                if k.arg == param:
                    arg = k.value
            if arg is None:
                d = fi.node.args.defaults
                off = len(names) - len(d)
                di = names.index(param) - off
                if 0 <= di < len(d):
                    arg = d[di]
                else:
                    return None
            try:
                vals.add(ConstEval(self.repo, cs.caller.module).eval(arg, {}))
                continue
            except NotConst:
                pass
            except TypeError:
                return None
            if isinstance(arg, ast.Name):
                le = self.const_loop_envs(cs.caller, cs.node)
                if le and all(arg.id in e for e in le):
                    try:
                        vals |= {e[arg.id] for e in le}
                        continue
                    except TypeError:
                        return None
            if isinstance(arg, ast.Name) and arg.id in {a.arg for a in cs.caller.node.args.args}:
                sub = self.param_values(cs.caller, arg.id, within, _depth + 1)
                if sub is None:
                    return None
                vals |= sub
            else:
                return None
        return vals
