"""Verdict / evidence / known-findings plumbing and the exit-code protocol.

exit 0  every rule instance of the property discharged (KNOWN-FINDING lines may be printed)
exit 1  VIOLATION property=<id> replay=<path>   a rule instance failed
exit 2  ANALYSIS-ERROR ...                      the analysis cannot give a verdict
"""
from __future__ import annotations

import json
import os
import pathlib
import time
from dataclasses import dataclass, field
from typing import Any, Optional

VERIF = pathlib.Path(__file__).resolve().parent.parent
EVIDENCE_DIR = VERIF / "evidence"
KNOWN = VERIF / "known_findings.json"


@dataclass
class Finding:
    rule: str
    file: str
    function: str
    construct: str            # normalised text of the offending construct (the key, not a line number)
    message: str
    line: Optional[int] = None
    path: list[str] = field(default_factory=list)   # for flow rules: source -> ... -> sink
    extra: dict = field(default_factory=dict)

    @property
    def key(self) -> str:
        return f"{self.rule}|{self.file}|{self.function}|{self.construct}"

    def to_json(self):
        d = {"rule": self.rule, "file": self.file, "function": self.function, "construct": self.construct,
             "message": self.message, "line": self.line, "key": self.key}
        if self.path:
            d["path"] = self.path
        if self.extra:
            d["extra"] = self.extra
        return d

    def text(self) -> str:
        loc = f"{self.file}:{self.line}" if self.line else self.file
        s = f"[{self.rule}] {loc} in {self.function}: {self.message} :: {self.construct}"
        if self.path:
            s += "\n      path: " + " -> ".join(self.path)
        return s


@dataclass
class RuleResult:
    rule: str
    what: str = ""                                  # one-line statement of the rule
    instances: list[dict] = field(default_factory=list)   # what was analysed: {function, construct, verdict, ...}
    findings: list[Finding] = field(default_factory=list)
    counts: dict[str, int] = field(default_factory=dict)
    notes: list[str] = field(default_factory=list)
    trusted: list[str] = field(default_factory=list)
    wall_s: float = 0.0
    error: Optional[str] = None                      # analysis error: this rule could not decide

    def inst(self, function: str, construct: str, verdict: str = "ok", **kw):
        d = {"function": function, "construct": construct, "verdict": verdict}
        d.update(kw)
        self.instances.append(d)
        return d

    def fail(self, f: Finding):
        self.findings.append(f)

    @property
    def obligations(self) -> int:
        return len(self.instances)

    @property
    def discharged(self) -> int:
        return sum(1 for i in self.instances if i["verdict"] == "ok")


def load_known() -> dict:
    if KNOWN.is_file():
        return json.loads(KNOWN.read_text())
    return {"open": [], "fixed": []}


def write_evidence(prop: str, tier: str, level: str, results: list[RuleResult], violations: list[Finding],
                   known_hit: list[dict], wall: float, explanation: str, assumptions: list[str],
                   extra: dict | None = None, checker_cmd: str = ""):
    EVIDENCE_DIR.mkdir(exist_ok=True)
    obligations = sum(r.obligations for r in results)
    discharged = sum(r.discharged for r in results)
    distinct = {(r.rule, i["function"], i["construct"]) for r in results for i in r.instances}
    samples = []
    for r in results:
        for i in r.instances[:3]:
            samples.append({"rule": r.rule, **{k: v for k, v in i.items() if k in ("function", "construct", "verdict", "detail")}})
    trusted = sorted({t for r in results for t in r.trusted})
    cov = {
        "explanation": explanation,
        "obligations": obligations,
        "discharged": discharged,
        "evaluations": max(obligations, 1),
        "distinct_nontrivial": len(distinct),
        "rule": "one obligation per rule instance found in the current source (function + normalised construct); "
                "distinct = distinct (rule, function, construct) triples; all are non-trivial in the sense that each is a "
                "site the rule had to decide",
        "samples": samples[:40] or [{"note": "no instance"}],
        "checker_cmd": checker_cmd,
        "trusted_base": trusted,
        "exhaustive": True,
        "rules": [
            {"rule": r.rule, "what": r.what, "instances": len(r.instances), "failed": len(r.findings),
             "counts": r.counts, "notes": r.notes[:12], "wall_s": round(r.wall_s, 3), "error": r.error}
            for r in results
        ],
        "instances": [
            {"rule": r.rule, **i} for r in results for i in r.instances
        ][:600],
        "findings": [f.to_json() for f in violations],
        "known_findings_matched": known_hit,
    }
    if extra:
        cov.update(extra)
    ev = {
        "property_id": prop,
        "tier": tier,
        "seed": int(os.environ.get("VERIF_SEED", "0") or 0),
        "level": level,
        "coverage": cov,
        "assumptions": assumptions,
        "wall_s": round(wall, 3),
        "violations": len(violations),
    }
    (EVIDENCE_DIR / f"{prop}.json").write_text(json.dumps(ev, indent=1, default=str) + "\n")
    return ev


def write_violation_replay(prop: str, findings: list[Finding]) -> pathlib.Path:
    d = EVIDENCE_DIR / "violations"
    d.mkdir(parents=True, exist_ok=True)
    p = d / f"{prop}.json"
    p.write_text(json.dumps({"property": prop, "findings": [f.to_json() for f in findings]}, indent=1) + "\n")
    return p
