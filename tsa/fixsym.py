"""Path-sensitive abstract interpretation of the refinement driver (R-FIXPOINT).

Values are terms over the chain of refinements of the driver's argument:
  ('g', k)            the graph after k refinement steps (relative to a base that is shifted as loops go round)
  ('cnt', f, k)       the class count of ('g', k) computed by counting function f
  ('nodes', k)        its number of atoms
  ('bool', op, a, b)  a stored comparison a op b   (op in '==', '!=')
  ('inst', cls, {..}) an instance of a value class, ('tup', [...]) a tuple, ('seq', k) the endless sequence
                      ('g', k), ('g', k+1), ...  ('pairs', k) its consecutive pairs, ('int', n), ('unk', why)
A state is (environment, set of facts); facts are equalities / disequalities between terms, learned from the
branches taken.  Branches fork the state; loops are iterated on normalised states (all generation numbers shifted so
that the smallest live one is 0) until no new state appears.

The driver may hand out ('g', k) only in a state that holds  cnt(k) == cnt(k-1)  or  cnt(k+1) == cnt(k)  for a
counting function that reads the partition attribute: the partition and its one-step refinement have the same
number of classes, i.e. the partition is stable.
"""
from __future__ import annotations

import ast
from typing import Optional

from .model import AnalysisError, FuncInfo, norm, short


class Undecided(AnalysisError):
    pass


def G(k): return ("g", k)
def UNK(why): return ("unk", why)


def shift_term(t, d):
    if not isinstance(t, tuple):
        return t
    tag = t[0]
    if tag == "g":
        return ("g", t[1] + d)
    if tag == "cnt":
        return ("cnt", t[1], t[2] + d)
    if tag in ("nodes", "seq", "pairs"):
        return (tag, t[1] + d)
    if tag == "bool":
        return ("bool", t[1], shift_term(t[2], d), shift_term(t[3], d))
    if tag == "inst":
        return ("inst", t[1], tuple((k, shift_term(v, d)) for k, v in t[2]))
    if tag == "tup":
        return ("tup", tuple(shift_term(x, d) for x in t[1]))
    return t


def gens_in(t, out):
    if not isinstance(t, tuple):
        return
    tag = t[0]
    if tag == "g":
        out.append(t[1])
    elif tag == "cnt":
        out.append(t[2])
    elif tag in ("nodes", "seq", "pairs"):
        out.append(t[1])
    elif tag == "bool":
        gens_in(t[2], out); gens_in(t[3], out)
    elif tag == "inst":
        for _, v in t[2]:
            gens_in(v, out)
    elif tag == "tup":
        for x in t[1]:
            gens_in(x, out)


class State:
    __slots__ = ("env", "facts")

    def __init__(self, env, facts):
        self.env, self.facts = env, facts

    def copy(self):
        return State(dict(self.env), set(self.facts))

    def key(self):
        return (tuple(sorted((k, repr(v)) for k, v in self.env.items())), tuple(sorted(map(repr, self.facts))))

    def normalised(self):
        ks = []
        for v in self.env.values():
            gens_in(v, ks)
        if not ks:
            return self
        d = -min(ks)
        if d == 0:
            s = self
        else:
            s = State({k: shift_term(v, d) for k, v in self.env.items()}, {(op, shift_term(a, d), shift_term(b, d)) for op, a, b in self.facts})
        # facts about generations that no live value can reach any more are dropped
        keep = set()
        for op, a, b in s.facts:
            ks2 = []
            gens_in(a, ks2); gens_in(b, ks2)
            if all(k >= -1 for k in ks2):
                keep.add((op, a, b))
        s.facts = keep
        return s


class Out:
    def __init__(self, term, facts, node, fi):
        self.term, self.facts, self.node, self.fi = term, set(facts), node, fi


class FixSym:
    MAX_STATES = 60

    def __init__(self, ctx, step: FuncInfo, partition_key: str, is_step_call):
        self.ctx, self.step, self.part = ctx, step, partition_key
        self.is_step_call = is_step_call          # (fi, call) -> graph argument expr or None
        self.outs: list[Out] = []
        self.depth = 0
        self.count_fns: dict[str, bool] = {}      # function id -> reads the partition attribute
        self.partial_counts: dict[str, str] = {}  # function id -> why it is not the number of all classes
        self.silent_ends = 0                       # ways through the (generator) driver that yield nothing

    # ------------------------------------------------------------------ entry
    def run(self, fi: FuncInfo):
        ps = [a.arg for a in fi.node.args.args]
        if not ps:
            raise Undecided("driver without parameter")
        st = State({ps[0]: G(0)}, set())
        # parameters with a constant default that no caller in the repository passes have that default
        a_ = fi.node.args
        defaults = dict(zip([x.arg for x in (a_.posonlyargs + a_.args)][len(a_.posonlyargs + a_.args) - len(a_.defaults):], a_.defaults))
        defaults.update({x.arg: d for x, d in zip(a_.kwonlyargs, a_.kw_defaults) if d is not None})
        all_ps = [x.arg for x in a_.posonlyargs + a_.args]
        for name, d in defaults.items():
            if name == ps[0] or not (isinstance(d, ast.Constant) and (d.value is None or isinstance(d.value, (int, bool)))):
                continue
            passed = False
            for g in self.ctx.cg.funcs.values():
                for cs in self.ctx.cg.sites.get(g.fq, []):
                    if cs.kind == "tucan" and cs.target.fq == fi.fq:
                        if any(k.arg == name or k.arg is None for k in cs.node.keywords) or any(isinstance(x, ast.Starred) for x in cs.node.args) \
                                or (name in all_ps and len(cs.node.args) > all_ps.index(name)):
                            passed = True
            if not passed:
                st.env[name] = ("none",) if d.value is None else ("int", int(d.value))
        self.exec_fn(fi, st, top=True)
        return self.outs

    def exec_fn(self, fi, st, top=False):
        """returns [(return term, state)]; yields of the top-level driver are outputs; yields of helpers are collected"""
        if self.depth > 5:
            raise Undecided("call depth")
        self.depth += 1
        frame = {"fi": fi, "rets": [], "yields": [], "top": top, "gen": any(isinstance(x, (ast.Yield, ast.YieldFrom)) for x in ast.walk(fi.node))}
        try:
            ends = self.block(frame, fi.node.body, [st])
        finally:
            self.depth -= 1
        if top and frame["gen"] and not frame.get("recursive"):
            # ways through a generator driver that hand out nothing at all: falling off the end, or a bare return, before any yield
            for e_ in list(ends) + [s_ for t_, s_ in frame["rets"] if t_ == ("none",)]:
                if "__emitted__" not in e_.env:
                    self.silent_ends += 1
        return frame

    # ------------------------------------------------------------------ statements
    def block(self, fr, stmts, states):
        for s in stmts:
            nxt = []
            for st in states:
                nxt += self.stmt(fr, s, st)
            states = nxt
            if len(states) > self.MAX_STATES:
                raise Undecided("too many paths")
        return states

    def stmt(self, fr, s, st):
        fi = fr["fi"]
        if isinstance(s, ast.Expr):
            v = s.value
            if isinstance(v, ast.Constant):
                return [st]
            if isinstance(v, ast.Yield):
                out = []
                for t, st2 in self.ev(fr, v.value, st):
                    self.emit(fr, t, st2, s)
                    out.append(st2)
                return out
            if isinstance(v, ast.YieldFrom):
                return self.yield_from(fr, v, st, s)
            return [st2 for _, st2 in self.ev(fr, v, st)]
        if isinstance(s, (ast.Assign, ast.AnnAssign)):
            if isinstance(s, ast.AnnAssign) and s.value is None:
                return [st]
            out = []
            for t, st2 in self.ev(fr, s.value, st):
                st3 = st2.copy()
                for tg in (s.targets if isinstance(s, ast.Assign) else [s.target]):
                    self.bind(tg, t, st3)
                out.append(st3)
            return out
        if isinstance(s, ast.AugAssign):
            st3 = st.copy()
            if isinstance(s.target, ast.Name):
                cur_ = st3.env.get(s.target.id)
                if isinstance(cur_, tuple) and cur_[:1] in (("int",), ("num",)) and isinstance(s.op, (ast.Add, ast.Sub, ast.Mult)) \
                        and isinstance(s.value, ast.Constant) and isinstance(s.value.value, int):
                    st3.env[s.target.id] = ("num",)          # a counter: some number (never None)
                else:
                    st3.env[s.target.id] = UNK("augmented assignment")
            return [st3]
        if isinstance(s, ast.Return):
            if s.value is None:
                fr["rets"].append((("none",), st))
                return []
            if isinstance(s.value, ast.Call) and self.is_self_call(fr, s.value):
                self.check_recursive_arg(fr, s.value, st)
                return []
            for t, st2 in self.ev(fr, s.value, st):
                if fr["top"] and not fr["gen"]:
                    self.outs.append(Out(t, st2.facts, s, fi))
                fr["rets"].append((t, st2))
            return []
        if isinstance(s, ast.If):
            out = []
            for pol, st2 in self.branch(fr, s.test, st):
                out += self.block(fr, s.body if pol else s.orelse, [st2])
            return out
        if isinstance(s, ast.While):
            return self.loop(fr, s, st)
        if isinstance(s, ast.For):
            return self.for_loop(fr, s, st)
        if isinstance(s, (ast.Pass, ast.Assert, ast.Import, ast.ImportFrom, ast.FunctionDef)):
            return [st]
        if isinstance(s, ast.Raise):
            return []
        if isinstance(s, (ast.Break, ast.Continue)):
            fr.setdefault("jumps", []).append(("break" if isinstance(s, ast.Break) else "continue", st))
            return []
        raise Undecided(f"statement {type(s).__name__} at {fi.loc(s)}")

    def emit(self, fr, t, st, node):
        if fr["top"]:
            st.env["__emitted__"] = ("int", 1)
            self.outs.append(Out(t, st.facts, node, fr["fi"]))
        else:
            fr["yields"].append((t, st))

    def bind(self, tg, t, st):
        if isinstance(tg, ast.Name):
            st.env[tg.id] = t
        elif isinstance(tg, (ast.Tuple, ast.List)):
            if isinstance(t, tuple) and t[0] == "tup" and len(t[1]) == len(tg.elts):
                for x, v in zip(tg.elts, t[1]):
                    self.bind(x, v, st)
            else:
                for x in tg.elts:
                    self.bind(x, UNK("unpacking"), st)
        # attribute / subscript stores do not concern the chain of graphs

    # ------------------------------------------------------------------ loops
    def prune(self, fr, s, st):
        """drop names that are never read again from the loop on (they would keep old generations alive)"""
        fn = fr["fi"].node
        # the outermost loop around s (its whole text may run again), else s itself
        outer = s
        for lp in ast.walk(fn):
            if isinstance(lp, (ast.For, ast.While)) and lp is not s and any(x is s for x in ast.walk(lp)) and lp.lineno <= outer.lineno:
                outer = lp
        header = set()
        if outer is s and isinstance(s, ast.For):
            header = {id(n) for n in ast.walk(s.iter)}         # evaluated once, before the first iteration
        end = getattr(outer, "end_lineno", outer.lineno)
        live = {n.id for n in ast.walk(fn) if isinstance(n, ast.Name) and isinstance(n.ctx, ast.Load) and id(n) not in header
                and (n.lineno > end or any(n is x for x in ast.walk(outer)))}
        st2 = State({k: v for k, v in st.env.items() if k in live or k.startswith("__pos@") or k == "__emitted__"}, set(st.facts))
        return st2

    def loop(self, fr, s, st):
        exits = []
        seen = set()
        work = [self.prune(fr, s, st).normalised()]
        rounds = 0
        while work:
            rounds += 1
            if rounds > 200:
                raise Undecided("loop does not converge")
            cur = work.pop()
            k = cur.key()
            if k in seen:
                continue
            seen.add(k)
            if len(seen) > self.MAX_STATES:
                raise Undecided("too many loop states")
            for pol, st2 in self.branch(fr, s.test, cur):
                if not pol:
                    exits.append(st2)
                    continue
                saved = fr.get("jumps")
                fr["jumps"] = []
                after = self.block(fr, s.body, [st2])
                jumps = fr["jumps"]
                fr["jumps"] = saved if saved is not None else []
                for kind, js in jumps:
                    if kind == "break":
                        exits.append(js)
                    else:
                        after.append(js)
                for a in after:
                    work.append(self.prune(fr, s, a).normalised())
        out = []
        for e in exits:
            out += self.block(fr, s.orelse, [e]) if s.orelse else [e]
        return out

    def for_loop(self, fr, s, st):
        fi = fr["fi"]
        out = []
        for it, st0 in self.ev(fr, s.iter, st):
            if isinstance(it, tuple) and it[0] in ("seq", "pairs"):
                # an endless sequence g(k), g(k+1), ... (or its consecutive pairs): the position in the sequence is kept in
                # the state under a hidden name, so that normalisation shifts it together with everything else
                hidden = f"__pos@{id(s)}"
                start = self.prune(fr, s, st0)
                start.env[hidden] = G(it[1])
                seen, work, exits = set(), [start.normalised()], []
                rounds = 0
                while work:
                    rounds += 1
                    if rounds > 200:
                        raise Undecided("loop over an endless sequence does not converge")
                    cur = work.pop()
                    key = cur.key()
                    if key in seen:
                        continue
                    seen.add(key)
                    if len(seen) > self.MAX_STATES:
                        raise Undecided("too many loop states")
                    st2 = cur.copy()
                    c = st2.env[hidden][1]
                    self.bind(s.target, G(c) if it[0] == "seq" else ("tup", (G(c), G(c + 1))), st2)
                    saved = fr.get("jumps")
                    fr["jumps"] = []
                    after = self.block(fr, s.body, [st2])
                    jumps = fr["jumps"]
                    fr["jumps"] = saved if saved is not None else []
                    for kind, js in jumps:
                        (exits if kind == "break" else after).append(js)
                    for a_ in after:
                        a2 = self.prune(fr, s, a_)
                        a2.env[hidden] = G(c + 1)
                        for nm in [x.id for x in ast.walk(s.target) if isinstance(x, ast.Name)]:
                            a2.env.pop(nm, None)        # re-bound at the start of the next iteration
                        work.append(a2.normalised())
                for e_ in exits:
                    e_.env.pop(hidden, None)
                out += exits
                continue
            if isinstance(it, tuple) and it[0] == "range":
                st1 = st0.copy()
                self.bind(s.target, UNK("counter"), st1)
                ex = self.loop_unknown(fr, s, st1)
                for e_ in ex:
                    out += self.block(fr, s.orelse, [e_]) if s.orelse else [e_]
                continue
            raise Undecided(f"loop over `{short(s.iter)}` at {fi.loc(s)}")
        return out

    def loop_unknown(self, fr, s, st):
        """loop whose continuation is not decided by the chain: 0..n rounds"""
        exits = []
        seen = set()
        work = [self.prune(fr, s, st).normalised()]
        while work:
            cur = work.pop()
            k = cur.key()
            if k in seen:
                continue
            seen.add(k)
            if len(seen) > self.MAX_STATES:
                raise Undecided("too many loop states")
            exits.append(cur)
            saved = fr.get("jumps")
            fr["jumps"] = []
            after = self.block(fr, s.body, [cur.copy()])
            jumps = fr["jumps"]
            fr["jumps"] = saved if saved is not None else []
            for kind, js in jumps:
                (exits if kind == "break" else after).append(js)
            for a in after:
                work.append(a.normalised())
        return exits

    # ------------------------------------------------------------------ conditions
    def branch(self, fr, test, st):
        """[(polarity, state)] for the outcomes of a test"""
        if isinstance(test, ast.Constant):
            if test.value == ("?",):
                return [(True, st.copy()), (False, st.copy())]
            return [(bool(test.value), st)]
        if isinstance(test, ast.UnaryOp) and isinstance(test.op, ast.Not):
            return [(not p, s2) for p, s2 in self.branch(fr, test.operand, st)]
        if isinstance(test, ast.BoolOp):
            res = []
            if isinstance(test.op, ast.And):
                cur = [(True, st)]
                for v in test.values:
                    nxt = []
                    for p, s2 in cur:
                        if not p:
                            nxt.append((False, s2))
                            continue
                        nxt += self.branch(fr, v, s2)
                    cur = nxt
                return cur
            cur = [(False, st)]
            for v in test.values:
                nxt = []
                for p, s2 in cur:
                    if p:
                        nxt.append((True, s2))
                        continue
                    nxt += self.branch(fr, v, s2)
                cur = nxt
            return cur
        if isinstance(test, ast.NamedExpr):
            out = []
            for t, s2 in self.ev(fr, test.value, st):
                s3 = s2.copy()
                s3.env[test.target.id] = t
                out += self.truth(t, s3)
            return out
        if isinstance(test, ast.Compare) and len(test.ops) == 1 and (isinstance(test.ops[0], (ast.Eq, ast.NotEq)) or (
                isinstance(test.ops[0], (ast.Is, ast.IsNot)) and isinstance(test.comparators[0], ast.Constant) and test.comparators[0].value is None)):
            out = []
            for a, s2 in self.ev(fr, test.left, st):
                for b, s3 in self.ev(fr, test.comparators[0], s2):
                    op = "==" if isinstance(test.ops[0], (ast.Eq, ast.Is)) else "!="
                    out += self.truth(("bool", op, a, b), s3)
            return out
        if isinstance(test, ast.Compare) and len(test.ops) == 1 and isinstance(test.ops[0], (ast.Lt, ast.LtE, ast.Gt, ast.GtE)):
            out = []
            for a, s2 in self.ev(fr, test.left, st):
                for b, s3 in self.ev(fr, test.comparators[0], s2):
                    t = self.order_of_counts(test.ops[0], a, b)
                    out += self.truth(t, s3) if t is not None else [(True, s3.copy()), (False, s3.copy())]
            return out
        out = []
        for t, s2 in self.ev(fr, test, st):
            out += self.truth(t, s2)
        return out

    @staticmethod
    def order_of_counts(op, a, b):
        """class counts of two partitions of one refinement chain compared by order: refining never merges classes (the
        own class comes first in the refinement key, R-OWNFIRST), so the later partition has at least as many classes and
        `later > earlier` says the same as `later != earlier`"""
        if not (isinstance(a, tuple) and isinstance(b, tuple) and a[:1] == ("cnt",) and b[:1] == ("cnt",) and a[1] == b[1] and a[2] != b[2]):
            return None
        later_left = a[2] > b[2]
        strict = isinstance(op, (ast.Lt, ast.Gt))
        left_greater = isinstance(op, (ast.Gt, ast.GtE))
        if left_greater == later_left:
            # later > earlier  /  later >= earlier
            return ("bool", "!=", a, b) if strict else ("int", 1)
        # later < earlier (never)  /  later <= earlier (equal)
        return ("int", 0) if strict else ("bool", "==", a, b)

    def truth(self, t, st):
        if isinstance(t, tuple) and t[0] == "bool":
            _, op, a, b = t
            if a == b and a[0] != "unk":
                return [(op == "==", st)]
            # None against something that is a value for sure (a count, a graph, a number, a record)
            for x, y in ((a, b), (b, a)):
                if x == ("none",) and isinstance(y, tuple) and y[:1] and y[0] in ("cnt", "g", "nodes", "int", "num", "inst", "tup", "seq", "pairs"):
                    return [(op != "==", st)]
            pos = ("eq" if op == "==" else "ne", a, b)
            neg = ("ne" if op == "==" else "eq", a, b)
            for f in (pos, neg):
                if self.has_fact(st.facts, f):
                    return [(f is pos, st)]
            s1, s2 = st.copy(), st.copy()
            s1.facts.add(pos)
            s2.facts.add(neg)
            return [(True, s1), (False, s2)]
        if isinstance(t, tuple) and t[0] == "int":
            return [(bool(t[1]), st)]
        if t == ("none",):
            return [(False, st)]
        return [(True, st.copy()), (False, st.copy())]

    @staticmethod
    def has_fact(facts, f):
        op, a, b = f
        return (op, a, b) in facts or (op, b, a) in facts

    # ------------------------------------------------------------------ expressions: [(term, state)]
    def ev(self, fr, e, st):
        fi = fr["fi"]
        if e is None:
            return [(("none",), st)]
        if isinstance(e, ast.Constant):
            if isinstance(e.value, bool) or e.value is None:
                return [((("int", int(e.value)) if e.value is not None else ("none",)), st)]
            if isinstance(e.value, int):
                return [(("int", e.value), st)]
            return [(UNK("constant"), st)]
        if isinstance(e, ast.Name):
            if e.id in st.env:
                return [(st.env[e.id], st)]
            return [(UNK(f"name {e.id}"), st)]
        if isinstance(e, ast.Attribute):
            out = []
            for b, s2 in self.ev(fr, e.value, st):
                if isinstance(b, tuple) and b[0] == "inst":
                    flds = dict(b[2])
                    if e.attr in flds:
                        out.append((flds[e.attr], s2))
                        continue
                    m = self.ctx.repo.mro_method(b[1], e.attr)
                    if m is not None and any(norm(d).split(".")[-1] in ("property", "cached_property") for d in m.node.decorator_list):
                        out += self.call_fn(m, [b], s2)
                        continue
                out.append((UNK(f"attribute {e.attr}"), s2))
            return out
        if isinstance(e, ast.Tuple):
            res = [([], st)]
            for x in e.elts:
                nxt = []
                for items, s2 in res:
                    for t, s3 in self.ev(fr, x, s2):
                        nxt.append((items + [t], s3))
                res = nxt
            return [(("tup", tuple(items)), s2) for items, s2 in res]
        if isinstance(e, ast.Subscript) and not isinstance(e.slice, ast.Slice):
            out = []
            for b, s2 in self.ev(fr, e.value, st):
                if isinstance(b, tuple) and b[0] == "tup" and isinstance(e.slice, ast.Constant) and isinstance(e.slice.value, int) and -len(b[1]) <= e.slice.value < len(b[1]):
                    out.append((b[1][e.slice.value], s2))
                elif isinstance(b, tuple) and b[0] == "lastof":
                    out.append((b[1], s2))
                else:
                    out.append((UNK("subscript"), s2))
            return out
        if isinstance(e, ast.Compare) and len(e.ops) == 1 and isinstance(e.ops[0], (ast.Eq, ast.NotEq)):
            out = []
            for a, s2 in self.ev(fr, e.left, st):
                for b, s3 in self.ev(fr, e.comparators[0], s2):
                    out.append((("bool", "==" if isinstance(e.ops[0], ast.Eq) else "!=", a, b), s3))
            return out
        if isinstance(e, ast.Compare) and len(e.ops) == 1 and isinstance(e.ops[0], (ast.Lt, ast.LtE, ast.Gt, ast.GtE)):
            out = []
            for a, s2 in self.ev(fr, e.left, st):
                for b, s3 in self.ev(fr, e.comparators[0], s2):
                    t = self.order_of_counts(e.ops[0], a, b)
                    out.append((t if t is not None else UNK("order comparison"), s3))
            return out
        if isinstance(e, ast.UnaryOp) and isinstance(e.op, ast.Not):
            out = []
            for t, s2 in self.ev(fr, e.operand, st):
                if isinstance(t, tuple) and t[0] == "bool":
                    out.append((("bool", "!=" if t[1] == "==" else "==", t[2], t[3]), s2))
                else:
                    out.append((UNK("not"), s2))
            return out
        if isinstance(e, ast.IfExp):
            out = []
            for pol, s2 in self.branch(fr, e.test, st):
                out += self.ev(fr, e.body if pol else e.orelse, s2)
            return out
        if isinstance(e, ast.NamedExpr):
            out = []
            for t, s2 in self.ev(fr, e.value, st):
                s3 = s2.copy()
                s3.env[e.target.id] = t
                out.append((t, s3))
            return out
        if isinstance(e, ast.Call):
            return self.call(fr, e, st)
        if isinstance(e, (ast.BinOp, ast.BoolOp, ast.JoinedStr, ast.List, ast.Dict, ast.Set, ast.ListComp, ast.GeneratorExp, ast.DictComp, ast.SetComp, ast.Lambda, ast.Subscript, ast.Compare, ast.UnaryOp)):
            # a count written inline:  max(nx.get_node_attributes(m, PARTITION).values()) is handled in call(); other
            # arithmetic is opaque
            return [(UNK(type(e).__name__), st)]
        raise Undecided(f"expression {type(e).__name__} at {fi.loc(e)}")

    # ------------------------------------------------------------------ calls
    def is_self_call(self, fr, call):
        cs = self.ctx.cg.resolve_call(fr["fi"], call, self.ctx.cg.local_types(fr["fi"]), set(a.arg for a in fr["fi"].node.args.args))
        return cs.kind == "tucan" and cs.target.fq == fr["fi"].fq

    def check_recursive_arg(self, fr, call, st):
        """driver(step(x)) as tail call: the callee is the same driver, its outputs are covered by this very analysis; the
        argument must be a graph of the chain"""
        for t, _ in self.ev(fr, call.args[0], st) if call.args else []:
            if not (isinstance(t, tuple) and t[0] == "g"):
                raise Undecided(f"recursive call with an argument that is not a refinement of the input: `{short(call)}`")
        fr.setdefault("recursive", []).append(call)

    def yield_from(self, fr, v, st, node):
        call = v.value
        if isinstance(call, ast.Call) and self.is_self_call(fr, call):
            self.check_recursive_arg(fr, call, st)
            return [st]
        out = []
        for t, s2 in self.ev(fr, call, st):
            if isinstance(t, tuple) and t[0] == "yielded":
                for y in t[1]:
                    self.emit(fr, y, s2, node)
                out.append(s2)
            else:
                raise Undecided(f"`yield from {short(call)}`")
        return out

    def counting_fn(self, fi, e, graph_args):
        """id of a counting function if expression e (one graph argument) computes something from the partition attribute"""
        if isinstance(e, ast.Call):
            cs = self.ctx.cg.resolve_call(fi, e, self.ctx.cg.local_types(fi), set(a.arg for a in fi.node.args.args))
            if cs.kind == "tucan":
                fq = cs.target.fq
                if fq not in self.count_fns:
                    clo = [cs.target] + [self.ctx.cg.funcs[q] for q in self.ctx.cg.closure([fq])]
                    reads = False
                    partial = None
                    try:
                        others = {v for v in (self.ctx.repo.try_const("tucan.graph_attributes", nm, None) for nm in self.ctx.repo.module("tucan.graph_attributes").assigns)
                                  if isinstance(v, str) and v != self.part}
                    except (NameError, UnboundLocalError):
                        raise
                    except Exception:
                        others = set()
                    for f in clo:
                        if f.fq == self.step.fq:
                            reads = False
                            break
                        for n in ast.walk(f.node):
                            if isinstance(n, ast.Name):
                                c = self.ctx.repo.try_const(f.module, n.id, None)
                                if c == self.part:
                                    reads = True
                                elif isinstance(c, str) and c in others and partial is None:
                                    partial = f"{f.qualname} also reads the attribute `{c}`"
                            if isinstance(n, ast.Constant) and n.value == self.part:
                                reads = True
                            elif isinstance(n, ast.Constant) and isinstance(n.value, str) and n.value in others and partial is None:
                                partial = f"{f.qualname} also reads the attribute `{n.value}`"
                            if isinstance(n, ast.comprehension) and partial is None:
                                for c_ in n.ifs:
                                    about_partition = any((isinstance(z, ast.Name) and self.ctx.repo.try_const(f.module, z.id, None) == self.part) or
                                                          (isinstance(z, ast.Constant) and z.value == self.part) for z in ast.walk(c_))
                                    if not about_partition:
                                        partial = f"{f.qualname} counts only the atoms that pass `{short(c_)}`"
                                        break
                    self.count_fns[fq] = reads
                    if reads and partial:
                        self.partial_counts[fq] = partial
                if self.count_fns[fq] and fq in self.partial_counts:
                    return "partial:" + fq
                return fq if self.count_fns[fq] else None
        txt = norm(e)
        consts = [n for n in ast.walk(e) if (isinstance(n, ast.Name) and self.ctx.repo.try_const(fi.module, n.id, None) == self.part) or (isinstance(n, ast.Constant) and n.value == self.part)]
        if consts:
            for g in graph_args:
                txt = txt.replace(g, "_")
            return "expr:" + txt
        return None

    def call(self, fr, e, st):
        fi = fr["fi"]
        # the refinement step
        src = self.is_step_call(fi, e)
        if src is not None:
            out = []
            for t, s2 in self.ev(fr, src, st):
                out.append((G(t[1] + 1) if isinstance(t, tuple) and t[0] == "g" else UNK("step of something else"), s2))
            return out
        f = e.func
        # g.copy(), g.number_of_nodes(), len(g)
        if isinstance(f, ast.Attribute):
            recvs = self.ev(fr, f.value, st)
            if len(recvs) == 1 and isinstance(recvs[0][0], tuple) and recvs[0][0][0] == "g":
                g, s2 = recvs[0]
                if f.attr == "copy":
                    return [(g, s2)]
                if f.attr in ("number_of_nodes", "order", "__len__"):
                    return [(("nodes", g[1]), s2)]
            if len(recvs) == 1 and isinstance(recvs[0][0], tuple) and recvs[0][0][0] == "inst":
                inst, s2 = recvs[0]
                m = self.ctx.repo.mro_method(inst[1], f.attr)
                if m is not None:
                    args = [inst]
                    return self.call_with_args(fr, m, e, s2, prefix=args)
        # names bound to simple graph arguments, for inline counting expressions
        graph_names = [n.id for n in ast.walk(e) if isinstance(n, ast.Name) and isinstance(st.env.get(n.id), tuple) and st.env[n.id][0] == "g"]
        if isinstance(f, ast.Name) and f.id in ("len",) and e.args and isinstance(e.args[0], ast.Name) and e.args[0].id in graph_names:
            return [(("nodes", st.env[e.args[0].id][1]), st)]
        if isinstance(f, ast.Name) and f.id in ("list", "tuple") and e.args:
            out = []
            for t, s2 in self.ev(fr, e.args[0], st):
                if isinstance(t, tuple) and t[0] == "yielded" and t[1]:
                    out.append((("lastof", t[1][-1]), s2))
                else:
                    out.append((UNK("list"), s2))
            return out
        if isinstance(f, ast.Name) and f.id == "range":
            return [(("range",), st)]
        q = norm(f)
        if q.split(".")[-1] == "pairwise" and e.args:
            out = []
            for t, s2 in self.ev(fr, e.args[0], st):
                out.append((("pairs", t[1]) if isinstance(t, tuple) and t[0] == "seq" else UNK("pairwise"), s2))
            return out
        if q.split(".")[-1] == "next" and e.args:
            out = []
            for t, s2 in self.ev(fr, e.args[0], st):
                out.append((G(t[1]) if isinstance(t, tuple) and t[0] == "seq" else UNK("next"), s2))
            return out
        cs = self.ctx.cg.resolve_call(fi, e, self.ctx.cg.local_types(fi), set(a.arg for a in fi.node.args.args))
        # counting function applied to one graph of the chain
        if len(set(graph_names)) == 1:
            fid = self.counting_fn(fi, e, set(graph_names))
            if fid is not None:
                return [(("cnt", fid, st.env[graph_names[0]][1]), st)]
        if cs.kind == "ctor" or (cs.kind in ("param", "unknown") and isinstance(f, ast.Name) and f.id == "cls" and fi.cls is not None):
            ci = cs.target if cs.kind == "ctor" else fi.cls
            names = [s_.target.id for s_ in ci.node.body if isinstance(s_, ast.AnnAssign) and isinstance(s_.target, ast.Name)]
            res = [([], st)]
            for a in e.args:
                nxt = []
                for items, s2 in res:
                    for t, s3 in self.ev(fr, a, s2):
                        nxt.append((items + [t], s3))
                res = nxt
            out = []
            for items, s2 in res:
                flds = list(zip(names, items))
                for k in e.keywords:
                    for t, s3 in self.ev(fr, k.value, s2):
                        flds.append((k.arg, t))
                out.append((("inst", ci, tuple(flds)), s2))
            return out
        if cs.kind == "tucan":
            return self.call_with_args(fr, cs.target, e, st)
        # opaque call: evaluate arguments for their effects on the state only
        return [(UNK(f"call {q}"), st)]

    def call_with_args(self, fr, target, e, st, prefix=None):
        res = [(list(prefix or []), st)]
        decos = [norm(d).split(".")[-1] for d in target.node.decorator_list]
        if target.cls is not None and "classmethod" in decos and not prefix:
            res = [([("class", target.cls)], st)]
        for a in e.args:
            nxt = []
            for items, s2 in res:
                for t, s3 in self.ev(fr, a, s2):
                    nxt.append((items + [t], s3))
            res = nxt
        out = []
        for items, s2 in res:
            out += self.call_fn(target, items, s2)
        return out

    def endless_chain(self, target, env, st) -> Optional[int]:
        """k if `target` is a generator of the form  while True: yield g; g = step(g)  started at ('g', k): two rounds of
        its loop body yield consecutive graphs and leave the environment shifted by one"""
        body = [x for x in target.node.body if not (isinstance(x, ast.Expr) and isinstance(x.value, ast.Constant))]
        if not (len(body) == 1 and isinstance(body[0], ast.While) and isinstance(body[0].test, ast.Constant) and body[0].test.value is True):
            return None
        if any(isinstance(x, (ast.Break, ast.Return)) for x in ast.walk(body[0])):
            return None
        fr = {"fi": target, "rets": [], "yields": [], "top": False, "gen": True}
        self.depth += 1
        try:
            s1 = self.block(fr, body[0].body, [State(dict(env), set(st.facts))])
            y1 = list(fr["yields"])
            if len(s1) != 1 or len(y1) != 1:
                return None
            fr["yields"] = []
            s2 = self.block(fr, body[0].body, [s1[0]])
            y2 = list(fr["yields"])
        finally:
            self.depth -= 1
        if len(s2) != 1 or len(y2) != 1:
            return None
        a, b = y1[0][0], y2[0][0]
        if isinstance(a, tuple) and a[0] == "g" and b == G(a[1] + 1) and {k: shift_term(v, 1) for k, v in s1[0].env.items()} == s2[0].env:
            return a[1]
        return None

    def call_fn(self, target, args, st):
        """inline a tucan helper: its own environment, the caller's facts"""
        ps = [a.arg for a in target.node.args.posonlyargs + target.node.args.args]
        env = {}
        for p, a in zip(ps, args):
            env[p] = a
        if not any(isinstance(a, tuple) and a[0] in ("g", "inst", "tup", "seq") for a in args):
            return [(UNK(f"call {target.name}"), st)]
        if target.fq == self.step.fq:
            return [(UNK("step"), st)]
        endless = self.endless_chain(target, env, st)
        if endless is not None:
            return [(("seq", endless), st)]
        inner = State(env, set(st.facts))
        fr2 = self.exec_fn(target, inner)
        out = []
        if fr2["gen"]:
            ys = fr2["yields"]
            # an endless generator  yield g; g = step(g)  : recognised by its first two yields being consecutive graphs
            facts = set(st.facts)
            for _, s_ in ys:
                facts |= s_.facts
            out.append((("yielded", tuple(t for t, _ in ys)), State(dict(st.env), facts)))
            return out
        for t, s2 in fr2["rets"]:
            out.append((t, State(dict(st.env), set(s2.facts))))
        return out or [(("none",), st)]
