"""Library of source variants used to validate the checkers themselves
(thorough tier).  A variant is an in-memory overlay of one or more repository
files: no copy of the repository is written.

  fires  = rules that must report a violation on the variant
  silent = the variant preserves behaviour: no rule of the property may report

A variant whose anchor text is not found in the current tree (because the tree
under analysis was edited) is skipped and counted as such; a disagreement
between expected and observed verdicts makes the thorough run exit 2.
"""
from __future__ import annotations

import os
import re
import subprocess
from concurrent.futures import ProcessPoolExecutor
from dataclasses import dataclass, field
from typing import Optional

from .model import AnalysisError, Repo

CAN = "tucan/canonicalization.py"
SER = "tucan/serialization.py"
GU = "tucan/graph_utils.py"
V2 = "tucan/io/molfile_v2000_reader.py"
V3 = "tucan/io/molfile_v3000_reader.py"
WR = "tucan/io/molfile_writer.py"
PAR = "tucan/parser/parser.py"
EA = "tucan/element_attributes.py"
G4 = "tucan/parser/tucan.g4"
EBNF = "tucan/parser/tucan.ebnf"
RD = "tucan/io/molfile_reader.py"


@dataclass
class Variant:
    name: str
    edits: list[tuple[str, str, str]]          # (file, old, new)
    fires: set[str] = field(default_factory=set)
    silent: bool = False
    note: str = ""
    env: dict = field(default_factory=dict)    # e.g. {"igraph_version": "0.10"}


def _ws(s: str) -> str:
    return re.sub(r"\s+", " ", s).strip()


def apply(repo_root, v: Variant) -> Optional[dict]:
    """overlay for the variant, or None if an anchor is missing in the current tree"""
    base = Repo(repo_root)
    texts: dict[str, str] = {}
    for f, old, new in v.edits:
        src = texts.get(f)
        if src is None:
            if not base.exists(f):
                return None
            src = base.text(f)
        if old in src:
            src = src.replace(old, new, 1)
        else:
            # whitespace-insensitive fallback (survives reformatting)
            pat = r"\s+".join(re.escape(tok) for tok in old.split())
            m = re.search(pat, src)
            if not m:
                return None
            src = src[:m.start()] + new + src[m.end():]
        texts[f] = src
    return texts


V: list[Variant] = []


def add(name, edits, fires=(), silent=False, note="", env=None):
    if isinstance(edits, tuple):
        edits = [edits]
    V.append(Variant(name, list(edits), set(fires), silent, note, env or {}))


# ---------------------------------------------------------------- reverts of the repaired defects
add("revert_D1_bliss_zip", (CAN, '''    permutation = m_igraph.canonical_permutation(color=partitions)
    # Let igraph apply its own permutation instead of interpreting the vector:
    # its index convention (old -> new vs. new -> old) differs between igraph
    # releases, while permute_vertices() always yields the canonical form.
    old_labels_in_canonical_order = m_igraph.permute_vertices(permutation).vs[
        "_nx_name"
    ]

    return {old: new for new, old in enumerate(old_labels_in_canonical_order)}''',
     '''    old_labels = m_igraph.vs["_nx_name"]
    canonical_labels = m_igraph.canonical_permutation(color=partitions)

    return dict(zip(old_labels, canonical_labels))'''), fires={"R-BLISS"})
add("revert_D2_recursive_refinement", (CAN, '''    while True:
        m_refined = partition_molecule_by_attribute(m, PARTITION)

        if get_number_of_partitions(m_refined) == get_number_of_partitions(m):
            # No more refinement possible.
            yield m_refined
            return

        m = m_refined''', '''    m_refined = partition_molecule_by_attribute(m, PARTITION)

    if get_number_of_partitions(m_refined) == get_number_of_partitions(m):
        # No more refinement possible.
        yield m_refined
        return

    yield from refine_partitions(m_refined)'''), fires={"R-NOREC"})
add("revert_D3_v3000_zero", (V3, '''        if val and (value := val.pop()) != 0:
            atom_attrs[key] = value''', '''        if val:
            atom_attrs[key] = val.pop()'''), fires={"R-ZERO", "R-SHAPE"})
add("revert_D3_v2000_zero", (V2, '''        if value == 0:
            # An explicit default value means the same as no entry.
            continue
''', ''), fires={"R-ZERO", "R-SHAPE"})
add("revert_D4_keyword_substring", (V3, 'if i.startswith("CHG=")]', 'if "CHG" in i]'), fires={"R-KWEXACT"})
add("revert_D5_iso_clears_mass", [(V2, '''    reset_chg_and_rad = False
''', '''    reset_chg_and_rad = False
    reset_mass = False
'''), (V2, '''                MASS,
                additional_attrs,
            )
''', '''                MASS,
                additional_attrs,
            )
            reset_mass = True
'''), (V2, '''    # ISO lines supersede the mass difference field''', '''    if reset_mass:
        _clear_atom_attribute(MASS, atom_attrs)
    # ISO lines supersede the mass difference field''')], fires={"R-KILL"})

# ---------------------------------------------------------------- order / label / hash flow
add("nbr_traversal_unsorted", (SER, "neighbor_traversal_order.extend(sorted(neighbors_this_priority))", "neighbor_traversal_order.extend(neighbors_this_priority)"), fires={"R-FLOW-SERIAL"})
add("label_pools_unsorted", (SER, "(k, sorted(list(v), reverse=True)) for k, v", "(k, list(v)) for k, v"), fires={"R-FLOW-SERIAL"})
add("edge_list_outer_unsorted", (SER, "sorted_edges = sorted([sorted(edge) for edge in m.edges()])", "sorted_edges = [sorted(edge) for edge in m.edges()]"), fires={"R-FLOW-SERIAL"})
add("edge_list_inner_unsorted", (SER, "sorted([sorted(edge) for edge in m.edges()])", "sorted([list(edge) for edge in m.edges()])"), fires={"R-FLOW-SERIAL"})
add("attribute_sequence_unsorted", (GU, '''    attr_neighbors = sorted(
        [m.nodes[n][attribute] for n in m.neighbors(atom)], reverse=True
    )''', '''    attr_neighbors = [m.nodes[n][attribute] for n in m.neighbors(atom)]'''), fires={"R-FLOW-CANON", "R-FLOW-SERIAL", "R-OWNFIRST"})
add("unique_seqs_first_occurrence", (CAN, "unique_attr_seqs = sorted(set(attr_seqs))", "unique_attr_seqs = list(dict.fromkeys(attr_seqs))"), fires={"R-FLOW-CANON", "R-OWNFIRST"})
add("unique_seqs_set_order", (CAN, "unique_attr_seqs = sorted(set(attr_seqs))", "unique_attr_seqs = list(set(attr_seqs))"), fires={"R-FLOW-CANON", "R-OWNFIRST", "R-HASH"})
add("partition_pairing_misaligned", (CAN, "dict(zip(list(m_partitioned), partitions))", "dict(zip(sorted(m_partitioned), partitions))"), fires={"R-FLOW-CANON"})
add("formula_items_unsorted", (SER, "for k, v in dict(sorted(element_counts.items())).items():", "for k, v in element_counts.items():"), fires={"R-FLOW-SERIAL", "R-SHAPE"})
add("unexplored_unsorted", (SER, "while unexplored := sorted([k for k, v in m.nodes(data=EXPLORED) if not v]):", "while unexplored := [k for k, v in m.nodes(data=EXPLORED) if not v]:"), fires={"R-FLOW-SERIAL"})
add("node_attributes_unsorted", (SER, "for label, attrs in sorted(m.nodes(data=True)):", "for label, attrs in m.nodes(data=True):"), fires={"R-FLOW-SERIAL"})
add("sort_by_label_in_canon", (CAN, "attr_seqs = [attribute_sequence(m, atom, attribute) for atom in m]", "attr_seqs = [attribute_sequence(m, atom, attribute) + (atom,) for atom in m]"), fires={"R-FLOW-CANON"}, note="node id becomes part of the colour")
add("refactor_edge_writer_loop", (SER, '''    edge_list_string = "".join(
        [f"({edge[0] + 1}-{edge[1] + 1})" for edge in sorted_edges]
    )''', '''    edge_list_string = ""
    for edge in sorted_edges:
        edge_list_string += f"({edge[0] + 1}-{edge[1] + 1})"'''), silent=True)
add("refactor_sorted_reverse_slice", (GU, '''    attr_neighbors = sorted(
        [m.nodes[n][attribute] for n in m.neighbors(atom)], reverse=True
    )''', '''    attr_neighbors = sorted([m.nodes[n][attribute] for n in m.neighbors(atom)])[::-1]'''), silent=True)

add("edge_list_descending", (SER, "sorted_edges = sorted([sorted(edge) for edge in m.edges()])", "sorted_edges = sorted([sorted(edge) for edge in m.edges()], reverse=True)"), fires={"R-LAYOUT"},
    note="order-independent but descending: only the layout rule sees it")
add("edge_endpoints_descending", (SER, "sorted([sorted(edge) for edge in m.edges()])", "sorted([sorted(edge, reverse=True) for edge in m.edges()])"), fires={"R-LAYOUT"})
add("node_attributes_descending", (SER, "for label, attrs in sorted(m.nodes(data=True)):", "for label, attrs in sorted(m.nodes(data=True), key=lambda t: -t[0]):"), fires={"R-LAYOUT"})

add("refactor_attr_blocks_via_dict", (SER, '''    node_attribute_string = ""
    for label, attrs in sorted(m.nodes(data=True)):
        available_attrs = [
            f"{_SERIALIZER_NODE_ATTRIBUTE_MAPPING[attr]}={attrs[attr]}"
            for attr in _SERIALIZER_NODE_ATTRIBUTE_MAPPING
            if attr in attrs
        ]
        if not available_attrs:
            continue
        node_attribute_string += f"({label + 1}:"
        node_attribute_string += f"{','.join(available_attrs)})"

    return node_attribute_string''', '''    entries: dict[int, str] = {}
    for label, attrs in m.nodes(data=True):
        available_attrs = [
            f"{_SERIALIZER_NODE_ATTRIBUTE_MAPPING[attr]}={attrs[attr]}"
            for attr in _SERIALIZER_NODE_ATTRIBUTE_MAPPING
            if attr in attrs
        ]
        if available_attrs:
            entries[label] = ",".join(available_attrs)

    return "".join(f"({label + 1}:{entry})" for label, entry in sorted(entries.items()))'''), silent=True,
    note="collect per-atom blocks in a dict keyed by label (any node order), emit in sorted label order")
add("permute_private_generator", [(GU, '''    random.seed(
        random_seed
    )  # subsequent calls of random.shuffle(x[, random]) will now use fixed sequence of values for `random` parameter

    m_permu = _permute_molecule(m)''', '''    rng = random.Random(random_seed)

    m_permu = _permute_molecule(m, rng)'''), (GU, "            m_permu = _permute_molecule(m)", "            m_permu = _permute_molecule(m, rng)"),
    (GU, "def _permute_molecule(m: nx.Graph) -> nx.Graph:", "def _permute_molecule(m: nx.Graph, rng: Any = random) -> nx.Graph:"),
    (GU, "    random.shuffle(permuted_labels)", "    rng.shuffle(permuted_labels)")], silent=True, note="private seeded generator passed to every draw")

# ---------------------------------------------------------------- behaviour-preserving refactors (must stay silent)
add("refactor_partition_dictcomp", (CAN, '''    partitions = [unique_attr_seqs_to_partitions[attr_seq] for attr_seq in attr_seqs]

    m_partitioned = m.copy()
    nx.set_node_attributes(
        m_partitioned, dict(zip(list(m_partitioned), partitions)), PARTITION
    )''', '''    m_partitioned = m.copy()
    nx.set_node_attributes(
        m_partitioned,
        {atom: unique_attr_seqs_to_partitions[attribute_sequence(m, atom, attribute)] for atom in m},
        PARTITION,
    )'''), silent=True, note="class looked up per atom instead of zipping two aligned lists")
add("refactor_edge_list_generator", (SER, '''    sorted_edges = sorted([sorted(edge) for edge in m.edges()])
    edge_list_string = "".join(
        [f"({edge[0] + 1}-{edge[1] + 1})" for edge in sorted_edges]
    )''', '''    sorted_edges = sorted(sorted(edge) for edge in m.edges)
    edge_list_string = "".join(f"({a + 1}-{b + 1})" for a, b in sorted_edges)'''), silent=True)
add("refactor_v3000_props_dict", (V3, '''    optional_attrs = {
        CHG: [int(i.split("=")[1]) for i in line if i.startswith("CHG=")],
        MASS: (
            [int(i.split("=")[1]) for i in line if i.startswith("MASS=")]
            if not isotope_mass
            else [isotope_mass]
        ),
        RAD: [int(i.split("=")[1]) for i in line if i.startswith("RAD=")],
    }
    for key, val in optional_attrs.items():
        # An explicitly written default (CHG=0, RAD=0, MASS=0) means the same as omitting it.
        if val and (value := val.pop()) != 0:
            atom_attrs[key] = value''', '''    for token in line[7:]:
        if token.startswith("CHG="):
            chg = int(token[4:])
            if chg != 0:
                atom_attrs[CHG] = chg
        elif token.startswith("RAD="):
            rad = int(token[4:])
            if rad != 0:
                atom_attrs[RAD] = rad
        elif token.startswith("MASS=") and not isotope_mass:
            mass = int(token[5:])
            if mass != 0:
                atom_attrs[MASS] = mass
    if isotope_mass:
        atom_attrs[MASS] = isotope_mass'''), silent=True, note="explicit loop over the optional tokens")
add("refactor_v2000_table_dispatch", [(V2, '''        if line.startswith("M  CHG"):
            # M  CHGnn8 aaa vvv ...
            _merge_tuples_into_additional_attributes(
                _parse_atom_value_assignments(line, atom_attrs), CHG, additional_attrs
            )
            reset_chg_and_rad = True
        elif line.startswith("M  RAD"):
            # M  RADnn8 aaa vvv ...
            _merge_tuples_into_additional_attributes(
                _parse_atom_value_assignments(line, atom_attrs), RAD, additional_attrs
            )
            reset_chg_and_rad = True
        elif line.startswith("M  ISO"):
            # M  ISOnn8 aaa vvv ...
            _merge_tuples_into_additional_attributes(
                _parse_atom_value_assignments(line, atom_attrs),
                MASS,
                additional_attrs,
            )
        elif line == "M  END":''', '''        if (key := _PROPERTY_LINE_KEYS.get(line[:6])) is not None:
            _merge_tuples_into_additional_attributes(
                _parse_atom_value_assignments(line, atom_attrs), key, additional_attrs
            )
            if key in (CHG, RAD):
                reset_chg_and_rad = True
        elif line == "M  END":'''), (V2, '''def _parse_attribute_block(''', '''_PROPERTY_LINE_KEYS = {"M  CHG": CHG, "M  RAD": RAD, "M  ISO": MASS}


def _parse_attribute_block(''')], silent=True, note="table-driven dispatch on the line prefix")
add("refactor_v2000_clear_inline", (V2, '''        _clear_atom_attribute(CHG, atom_attrs)
        _clear_atom_attribute(RAD, atom_attrs)''', '''        for atom_attr in atom_attrs.values():
            atom_attr.pop(CHG, None)
            atom_attr.pop(RAD, None)'''), silent=True)
add("parser_rejects_large_mass", (PAR, "        attrs_for_node[attr_key] = value", "        if value > 400:\n            raise TucanParserException(f'Atom {node_index}: value {value} out of range.')\n        attrs_for_node[attr_key] = value"), fires={"R-REJECT"})
add("parser_rejects_heavy_element_count", (PAR, "        self._atoms.extend([atom_attrs.copy() for _ in range(count)])", "        if count > 5000:\n            raise TucanParserException('too many atoms')\n        self._atoms.extend([atom_attrs.copy() for _ in range(count)])"), fires={"R-REJECT"})
add("refactor_parser_index_check_range", (PAR, "        if index >= len(self._atoms):", "        if index not in range(len(self._atoms)):"), silent=True)
add("refactor_parser_index_check_early_return", (PAR, "        if index >= len(self._atoms):\n            raise TucanParserException(f\"Atom with index {index + 1} does not exist.\")", "        if 0 <= index < len(self._atoms):\n            return\n        raise TucanParserException(f\"Atom with index {index + 1} does not exist.\")"), silent=True)
add("refactor_igraph_built_by_hand", (CAN, "    m_igraph = iGraph.from_networkx(m)\n", "    position = {node: i for i, node in enumerate(m)}\n    m_igraph = iGraph(n=m.number_of_nodes(), edges=[(position[u], position[v]) for u, v in m.edges()])\n    m_igraph.vs[\"_nx_name\"] = list(m)\n    m_igraph.vs[PARTITION] = [p for _, p in m.nodes(data=PARTITION)]\n"), silent=True, note="igraph object assembled from positions instead of from_networkx")
add("igraph_built_by_hand_with_labels", (CAN, "    m_igraph = iGraph.from_networkx(m)\n", "    m_igraph = iGraph(n=m.number_of_nodes(), edges=list(m.edges()))\n    m_igraph.vs[\"_nx_name\"] = list(m)\n    m_igraph.vs[PARTITION] = [p for _, p in m.nodes(data=PARTITION)]\n"), fires={"R-BLISS"})
add("refactor_skip_bliss_when_discrete", (CAN, "    m_igraph = iGraph.from_networkx(m)\n", "    classes = nx.get_node_attributes(m, PARTITION)\n    if len(set(classes.values())) == m.number_of_nodes():\n        return classes\n    m_igraph = iGraph.from_networkx(m)\n"), silent=True, note="classes used as labels when they are pairwise distinct")
add("skip_bliss_when_no_bonds", (CAN, "    m_igraph = iGraph.from_networkx(m)\n", "    classes = nx.get_node_attributes(m, PARTITION)\n    if len(set(classes.values())) == m.number_of_nodes() or m.number_of_edges() == 0:\n        return classes\n    m_igraph = iGraph.from_networkx(m)\n"), fires={"R-BIJ", "R-BLISS"})
add("refactor_v3000_tokenizer_keeps_value_lists", (V3, '    split_lines = [line.rstrip().split(" ") for line in lines]\n\n    return [[value for value in line if value != ""] for line in split_lines]', '    return [re.findall(r"[^ (]*\\([^)]*\\)|[^ ]+", line.rstrip()) for line in lines]'), silent=True, note="parenthesised value lists stay one token; the ENDPTS pattern copes with any blanks")
add("refactor_v3000_endpts_pattern_single_blanks", (V3, '    endpts_pattern = re.compile(r"ENDPTS=\\(.+\\)")', '    endpts_pattern = re.compile(r"ENDPTS=\\(\\d+(?: \\d+)*\\)")'), silent=True, note="tokens hold no blanks and are joined with single ones")
add("v3000_value_lists_kept_and_single_blank_pattern", [(V3, '    split_lines = [line.rstrip().split(" ") for line in lines]\n\n    return [[value for value in line if value != ""] for line in split_lines]', '    return [re.findall(r"[^ (]*\\([^)]*\\)|[^ ]+", line.rstrip()) for line in lines]'), (V3, '    endpts_pattern = re.compile(r"ENDPTS=\\(.+\\)")', '    endpts_pattern = re.compile(r"ENDPTS=\\(\\d+(?: \\d+)*\\)")')], fires={"R-TOKENS"})
add("refactor_parser_inline_add_bond", (PAR, "        self._add_bond(index1, index2)", "        self._bonds.append((index1 - 1, index2 - 1))"), silent=True)
add("refactor_sort_by_label_add_node", (GU, '''    nodes_sorted_by_label = sorted(list(m.nodes(data=True)))

    m_sorted_by_label = nx.Graph()
    m_sorted_by_label.add_nodes_from(nodes_sorted_by_label)''', '''    m_sorted_by_label = nx.Graph()
    m_sorted_by_label.add_nodes_from((n, m.nodes[n]) for n in sorted(m.nodes))'''), silent=True)
add("refactor_writer_atom_line_parts", (WR, '''        _add_v30_line(
            lines,
            f"{index + 1} {attrs[ELEMENT_SYMBOL]} {x:.6f} {y:.6f} {z:.6f} 0{charge}{radical}{atomic_mass}",
        )''', '''        atom_line = f"{index + 1} {attrs[ELEMENT_SYMBOL]} {x:.6f} {y:.6f} {z:.6f} 0"
        atom_line += f"{charge}{radical}{atomic_mass}"
        _add_v30_line(lines, atom_line)'''), silent=True)
add("refactor_formula_explicit_sorted_keys", (SER, '''    for k, v in dict(sorted(element_counts.items())).items():
        sum_formula_string += f"{k}{v}" if v > 1 else k''', '''    for k, v in sorted(element_counts.items()):
        sum_formula_string += f"{k}{v}" if v > 1 else k'''), silent=True)
add("refactor_get_number_of_partitions_len", [(CAN, "    return max(nx.get_node_attributes(m, PARTITION).values())", "    return len(set(nx.get_node_attributes(m, PARTITION).values()))")], silent=True,
    note="class count instead of highest class id: the equality test of the driver is unaffected")

# ---------------------------------------------------------------- bliss / index spaces
add("bliss_explicit_inverse_igraph10", (CAN, '''    old_labels_in_canonical_order = m_igraph.permute_vertices(permutation).vs[
        "_nx_name"
    ]

    return {old: new for new, old in enumerate(old_labels_in_canonical_order)}''', '''    old_labels = m_igraph.vs["_nx_name"]
    return {old_labels[v]: i for i, v in enumerate(permutation)}'''), silent=True, note="correct under the installed igraph 1.0 convention")
add("bliss_swapped_map", (CAN, "{old: new for new, old in enumerate(old_labels_in_canonical_order)}", "{new: old for new, old in enumerate(old_labels_in_canonical_order)}"), fires={"R-BLISS"})
add("bliss_without_colours", (CAN, "canonical_permutation(color=partitions)", "canonical_permutation()"), fires={"R-BLISS"})
add("bliss_colour_by_invariant_code", (CAN, "partitions = m_igraph.vs[PARTITION]", "partitions = m_igraph.vs[INVARIANT_CODE]"), fires={"R-BLISS"})

# ---------------------------------------------------------------- keys / tables
add("invariant_code_without_rad", (GU, '''        InvariantCodeDefinition(MASS, 0),
        InvariantCodeDefinition(RAD, 0),''', '''        InvariantCodeDefinition(MASS, 0),'''), fires={"R-KEYS"})
add("invariant_code_with_chg", [(GU, '''        InvariantCodeDefinition(RAD, 0),''', '''        InvariantCodeDefinition(RAD, 0),
        InvariantCodeDefinition(CHG, 0),'''), (GU, '''    ATOMIC_NUMBER,
    INVARIANT_CODE,''', '''    ATOMIC_NUMBER,
    CHG,
    INVARIANT_CODE,''')], fires={"R-KEYS"})
add("swap_Te_I", [(EA, '''    "Te",
    "I",''', '''    "I",
    "Te",''')], fires={"R-ELEMTABLE"})
add("serializer_writes_chg", [(SER, '''    MASS: "mass",
    RAD: "rad",
}''', '''    MASS: "mass",
    RAD: "rad",
    CHG: "chg",
}'''), (SER, '''    ATOMIC_NUMBER,
    ELEMENT_SYMBOL,''', '''    ATOMIC_NUMBER,
    CHG,
    ELEMENT_SYMBOL,''')], fires={"R-KEYS", "R-SHAPE", "R-ATTRREAD"})
add("parser_index_zero_based", (PAR, "self._bonds.append((index1 - 1, index2 - 1))", "self._bonds.append((index1, index2 - 1))"), fires={"R-CODEC"})
add("serializer_index_zero_based", (SER, '[f"({edge[0] + 1}-{edge[1] + 1})" for edge in sorted_edges]', '[f"({edge[0]}-{edge[1] + 1})" for edge in sorted_edges]'), fires={"R-CODEC", "R-SHAPE"})
add("final_numbering_by_partition", (SER, "sort_molecule_by_attribute(_assign_final_labels(m), ATOMIC_NUMBER)", "sort_molecule_by_attribute(_assign_final_labels(m), PARTITION)"), fires={"R-CODEC"})
add("pipeline_reads_charge", [(SER, '''    partitions = m.nodes.data(PARTITION)
    labels_by_partition''', '''    partitions = m.nodes.data(CHG)
    labels_by_partition'''), (SER, '''    ATOMIC_NUMBER,
    ELEMENT_SYMBOL,''', '''    ATOMIC_NUMBER,
    CHG,
    ELEMENT_SYMBOL,''')], fires={"R-ATTRREAD"})

# ---------------------------------------------------------------- refinement / termination
add("refinement_constant_cap", (CAN, '''    while True:
        m_refined = partition_molecule_by_attribute(m, PARTITION)

        if get_number_of_partitions(m_refined) == get_number_of_partitions(m):
            # No more refinement possible.
            yield m_refined
            return

        m = m_refined''', '''    for _ in range(10):
        m = partition_molecule_by_attribute(m, PARTITION)
    yield m'''), fires={"R-FIXPOINT"})
add("refinement_n_rounds", (CAN, '''    while True:
        m_refined = partition_molecule_by_attribute(m, PARTITION)

        if get_number_of_partitions(m_refined) == get_number_of_partitions(m):
            # No more refinement possible.
            yield m_refined
            return

        m = m_refined''', '''    for _ in range(m.number_of_nodes()):
        m = partition_molecule_by_attribute(m, PARTITION)
    yield m'''), silent=True)
add("recursive_helper_in_serializer", (SER, '''def _write_edge_list(m: nx.Graph) -> str:
    sorted_edges''', '''def _count_down(n):
    return 0 if n <= 0 else _count_down(n - 1)


def _write_edge_list(m: nx.Graph) -> str:
    _count_down(m.number_of_edges())
    sorted_edges'''), fires={"R-NOREC"})
add("size_limit_in_canonicalization", (CAN, "    m_partitioned_by_invariant_code = partition_molecule_by_attribute(m, INVARIANT_CODE)", "    if m.number_of_nodes() > 999:\n        raise ValueError(\"too large\")\n    m_partitioned_by_invariant_code = partition_molecule_by_attribute(m, INVARIANT_CODE)"), fires={"R-FAILSITES"})
add("explored_mark_dropped", (SER, "            m.nodes[a][EXPLORED] = True\n", ""), fires={"R-FAILSITES"}, note="the label-count assertion is no longer discharged (and the loop no longer terminates)")
add("own_value_not_first", (GU, "return tuple([attr_atom] + attr_neighbors)", "return tuple(attr_neighbors + [attr_atom])"), fires={"R-OWNFIRST"})

# ---------------------------------------------------------------- readers
add("v2000_wrong_symbol_columns", (V2, "element_symbol = line[31:34].strip(\" \")", "element_symbol = line[32:35].strip(\" \")"), fires={"R-COLS", "R-PROV"})
add("v2000_symbol_columns_with_the_blank_before", (V2, "element_symbol = line[31:34].strip(\" \")", "element_symbol = line[30:33].strip(\" \")"), silent=True,
    note="column 30 is the blank in front of the symbol and element symbols have at most two letters: the same text on every valid line")
add("v2000_charge_code_wider", (V2, "_to_int(line[36:39])", "_to_int(line[36:40])"), silent=True, note="column 39 belongs to the stereo parity (0..3, one digit at column 41): always blank")
add("v2000_charge_table_swapped", (EA, "    3: {CHG: 1},\n    4: {RAD: 2},", "    3: {CHG: 1},\n    4: {RAD: 1},"), fires={"R-CHGTABLE"})
add("v2000_prop_entry_stride", (V2, "tuple_length = 8", "tuple_length = 7"), fires={"R-COLS"})
add("v2000_rad_lines_do_not_reset", (V2, '''                _parse_atom_value_assignments(line, atom_attrs), RAD, additional_attrs
            )
            reset_chg_and_rad = True''', '''                _parse_atom_value_assignments(line, atom_attrs), RAD, additional_attrs
            )'''), fires={"R-SUPERSEDE"})
add("v2000_iso_stored_as_rad", (V2, '''                _parse_atom_value_assignments(line, atom_attrs),
                MASS,''', '''                _parse_atom_value_assignments(line, atom_attrs),
                RAD,'''), fires={"R-SUPERSEDE"}, note="R-PROV sees RAD and ISO values meet under `rad` and cannot tell a join from a wrong assignment; the sample blocks show it")
add("v3000_no_bond_validation", (V3, "    _validate_bond_indices(bond_attrs, atom_attrs)\n", ""), fires={"R-ORDERING"})
add("v3000_split_before_splice", (V3, '''    lines = _concat_lines_with_dash(lines)
    split_lines = [line.rstrip().split(" ") for line in lines]''', '''    split_lines = [line.rstrip().split(" ") for line in lines]
    lines = _concat_lines_with_dash(lines)'''), fires={"R-ORDERING"})
add("v3000_keyword_partition_refactor", (V3, 'if i.startswith("CHG=")]', 'if i.partition("=")[0] == "CHG"]'), silent=True)
add("v3000_mass_from_coordinate", (V3, '[int(i.split("=")[1]) for i in line if i.startswith("MASS=")]', '[int(float(line[6]))]'), fires={"R-PROV"})

# ---------------------------------------------------------------- permutation helper
add("permute_edges_without_data", (GU, "m_sorted_by_label.add_edges_from(m.edges(data=True))", "m_sorted_by_label.add_edges_from(m.edges())"), fires={"R-CARRY"})
add("permute_no_seed", (GU, '''    random.seed(
        random_seed
    )  # subsequent''', '''    # subsequent'''), fires={"R-SEED", "R-NONDET"})
add("permute_retry_once", (GU, "        while m.edges == m_permu.edges:", "        if m.edges == m_permu.edges:"), fires={"R-RETRY"})
add("permute_nodes_unsorted", (GU, "nodes_sorted_by_label = sorted(list(m.nodes(data=True)))", "nodes_sorted_by_label = list(m.nodes(data=True))"), fires={"R-LABELORDER"})
add("permute_relabel_in_place", (GU, "m_relabeled = nx.relabel_nodes(m, dict(zip(permuted_labels, labels)), copy=True)", "m_relabeled = nx.relabel_nodes(m, dict(zip(permuted_labels, labels)), copy=False)"), fires={"R-COPY", "R-EFFECT"})

# ---------------------------------------------------------------- writer
add("writer_wrap_threshold_73", (WR, "        if len(line) <= 72:", "        if len(line) <= 73:"), fires={"R-LEN"})
add("writer_direct_append", (WR, '    _add_v30_line(lines, "END CTAB")', '    lines.append("M  V30 END CTAB " + str(graph.graph))'), fires={"R-LEN"})
add("writer_chunk_72_rest_71", (WR, "        left, line = line[:71], line[71:]", "        left, line = line[:71], line[72:]"), fires={"R-WRAP"})
add("writer_coordinates_4_decimals", (WR, "{x:.6f} {y:.6f} {z:.6f}", "{x:.4f} {y:.4f} {z:.4f}"), fires={"R-FIELDS"})
add("writer_bond_type_after_endpoints", (WR, 'f"{index} {bond_type} {node_index1 + 1} {node_index2 + 1}"', 'f"{index} {node_index1 + 1} {node_index2 + 1} {bond_type}"'), fires={"R-FIELDS"})
add("writer_charge_guard_excludes_15", (WR, "-15 <= chg <= 15", "-15 < chg < 15"), fires={"R-FIELDS"})
add("writer_rad_keyword_typo", (WR, 'f" RAD={rad}"', 'f" RADICAL={rad}"'), fires={"R-FIELDS"})
add("reader_splice_keeps_prefix_blank", (V3, "next_line[7:]", "next_line[6:]"), fires={"R-WRAP"})

add("refactor_wrap_while_len", (WR, '''    while True:
        if len(line) <= 72:
            lines.append(f"M  V30 {line}")
            break

        left, line = line[:71], line[71:]
        lines.append(f"M  V30 {left}-")''', '''    while len(line) > 72:
        lines.append(f"M  V30 {line[:71]}-")
        line = line[71:]
    lines.append(f"M  V30 {line}")'''), silent=True, note="same wrapping written with the loop condition on the length")

# ---------------------------------------------------------------- parser wiring
add("parser_lexer_listener_not_registered", (PAR, "    lexer.addErrorListener(LexerErrorListener())\n", ""), fires={"R-LISTENERS"})
add("parser_default_listeners_kept", (PAR, "    parser.removeErrorListeners()\n", ""), silent=True,
    note="the console listener prints, the raising listener registered after it still ends the parse: same results, noise on stderr")
add("parser_listener_removed_after_registration", (PAR, "    parser.removeErrorListeners()\n    parser.addErrorListener(ParserErrorListener())\n",
    "    parser.addErrorListener(ParserErrorListener())\n    parser.removeErrorListeners()\n"), fires={"R-LISTENERS"})
add("parser_start_rule_without_eof", (PAR, "    tree = parser.tucan()", "    tree = parser.tuples()"), fires={"R-LISTENERS"})
add("parser_handler_misspelt", (PAR, "    def enterTuple(self, ctx", "    def enterTupel(self, ctx"), fires={"R-HANDLERS"})
add("parser_atoms_share_dict", (PAR, "[atom_attrs.copy() for _ in range(count)]", "[atom_attrs for _ in range(count)]"), fires={"R-ALIAS"})
add("parser_listener_swallows_errors", (PAR, "        raise TucanParserException(error_str)", "        print(error_str)"), fires={"R-LISTENERS"})
add("parser_attribute_index_unvalidated", (PAR, "            self._validate_atom_index(index)\n\n            atom_attrs = atoms_dict[index]", "            atom_attrs = atoms_dict[index]"), fires={"R-ORDERING"})
add("parser_sort_reverse", (PAR, "sorted(self._atoms, key=lambda a: a[ATOMIC_NUMBER])", "sorted(self._atoms, key=lambda a: a[ATOMIC_NUMBER], reverse=True)"), fires={"R-CODEC"})
add("partitioner_mutates_argument", (CAN, "    m_partitioned = m.copy()", "    m_partitioned = m"), fires={"R-EFFECT"})
add("v3000_star_bonds_share_dict", (V3, "            bonds[t] = bond_attrs.copy()", "            bonds[t] = bond_attrs"), silent=True,
    note="the expanded star bonds share one record, but no bond record is written to afterwards and networkx copies them into the graph: not observable")
add("v3000_star_bonds_share_dict_and_written", [(V3, "            bonds[t] = bond_attrs.copy()", "            bonds[t] = bond_attrs"),
    (V3, "    _validate_bond_indices(bond_attrs, atom_attrs)", "    _validate_bond_indices(bond_attrs, atom_attrs)\n    for bond, attrs in bond_attrs.items():\n        attrs[\"first_atom\"] = bond[0]")],
    fires={"R-ALIAS"}, note="the shared record is written to per bond: every expanded bond ends up with the last value")

add("v3000_star_bonds_share_dict_by_comprehension", (V3, "        for t in bond_tuples:\n            bonds[t] = bond_attrs.copy()", "        bonds |= {t: bond_attrs for t in bond_tuples}"), silent=True,
    note="as v3000_star_bonds_share_dict, written as a dictionary comprehension (found by a mutant of a modernised reader)")
add("v3000_star_bonds_share_dict_by_comprehension_and_written", [(V3, "        for t in bond_tuples:\n            bonds[t] = bond_attrs.copy()", "        bonds |= {t: bond_attrs for t in bond_tuples}"),
    (V3, "    _validate_bond_indices(bond_attrs, atom_attrs)", "    _validate_bond_indices(bond_attrs, atom_attrs)\n    for bond, attrs in bond_attrs.items():\n        attrs[\"first_atom\"] = bond[0]")],
    fires={"R-ALIAS"})

_FORMULA_OLD = """    sum_formula_string = ""
    carbon_count = element_counts.pop("C", None)
    if carbon_count:
        sum_formula_string += f"C{carbon_count}" if carbon_count > 1 else "C"
        hydrogen_count = element_counts.pop("H", None)
        if hydrogen_count:
            sum_formula_string += f"H{hydrogen_count}" if hydrogen_count > 1 else "H"
    for k, v in dict(sorted(element_counts.items())).items():
        sum_formula_string += f"{k}{v}" if v > 1 else k

    return sum_formula_string
"""
_FORMULA_BY_KEY = """    has_carbon = "C" in element_counts

    def hill_order(item):
        symbol, _ = item
        return %s, symbol

    return "".join(
        f"{symbol}{count}" if count > 1 else symbol
        for symbol, count in sorted(element_counts.items(), key=hill_order)
    )
"""
add("formula_by_sort_key", (SER, _FORMULA_OLD, _FORMULA_BY_KEY % 'not (has_carbon and symbol in ("C", "H"))'), silent=True,
    note="Hill order through a sort key evaluated per element symbol (local function reading a flag known per path)")
add("formula_by_sort_key_hydrogen_always_first", (SER, _FORMULA_OLD, _FORMULA_BY_KEY % 'not (symbol in ("C", "H"))'), fires={"R-SHAPE"},
    note="H is put first in carbon-free molecules too: `H Ac` where the grammar wants `Ac H`")
add("attribute_blocks_sorted_by_first_component", (SER, "    for label, attrs in sorted(m.nodes(data=True)):", "    for label, attrs in sorted(m.nodes(data=True), key=lambda item: item[0]):"), silent=True)
add("attribute_blocks_sorted_descending", (SER, "    for label, attrs in sorted(m.nodes(data=True)):", "    for label, attrs in sorted(m.nodes(data=True), key=lambda item: item[0], reverse=True):"), fires={"R-LAYOUT"})


_REFINE_OLD = """    while True:
        m_refined = partition_molecule_by_attribute(m, PARTITION)

        if get_number_of_partitions(m_refined) == get_number_of_partitions(m):
            # No more refinement possible.
            yield m_refined
            return

        m = m_refined
"""
_REFINE_CARRIED = """    n_partitions = None

    while True:
        m_refined = partition_molecule_by_attribute(m, PARTITION)
        n_partitions_refined = get_number_of_partitions(m_refined)
        if n_partitions is None:
            n_partitions = get_number_of_partitions(m)

        if n_partitions_refined == n_partitions:
            yield m_refined
            return

        %s
"""
add("refinement_count_carried_over", (CAN, _REFINE_OLD, _REFINE_CARRIED % "m, n_partitions = m_refined, n_partitions_refined"), silent=True,
    note="the class count of the current partition is kept from the previous round instead of being recomputed (from a round of small behaviour-preserving edits)")
add("refinement_count_carried_over_stale", (CAN, _REFINE_OLD, _REFINE_CARRIED % "m = m_refined"), fires={"R-FIXPOINT"},
    note="the kept count is never updated: later rounds compare with the count of the first partition")
_REFINE_ROUNDS = """    rounds = 0
    while True:
        m_refined = partition_molecule_by_attribute(m, PARTITION)
        rounds += 1

        is_stable = get_number_of_partitions(m_refined) == get_number_of_partitions(m)
        if is_stable or rounds == max_rounds:
            yield m_refined
            return

        m = m_refined
"""
add("refinement_round_limit_off_by_default", [(CAN, "def refine_partitions(m: nx.Graph) -> Generator[nx.Graph, None, None]:", "def refine_partitions(m: nx.Graph, max_rounds=None) -> Generator[nx.Graph, None, None]:"),
    (CAN, _REFINE_OLD, _REFINE_ROUNDS)], silent=True, note="an optional round limit that no caller passes and that is None by default")
add("refinement_round_limit_three", [(CAN, "def refine_partitions(m: nx.Graph) -> Generator[nx.Graph, None, None]:", "def refine_partitions(m: nx.Graph, max_rounds=3) -> Generator[nx.Graph, None, None]:"),
    (CAN, _REFINE_OLD, _REFINE_ROUNDS)], fires={"R-FIXPOINT"}, note="the same with a default of three rounds")
add("parser_index_validator_as_assert", (PAR, """        if index >= len(self._atoms):
            raise TucanParserException(f"Atom with index {index + 1} does not exist.")""",
    """        assert index < len(self._atoms), f"Atom with index {index + 1} does not exist.\""""), fires={"R-ESCAPE", "R-ORDERING", "R-LISTENSAMPLE"},
    note="a dangling index ends in AssertionError (shown on a sample string)")
add("permutation_enforce_test_in_helper", [(GU, "    enforce_permutation = m.number_of_edges() > 1 and nx.density(m) != 1\n    if enforce_permutation:", "    if _can_enforce(m):"),
    (GU, "def _permute_molecule(m: nx.Graph) -> nx.Graph:", "def _can_enforce(m: nx.Graph) -> bool:\n    return m.number_of_edges() > 1 and nx.density(m) != 1\n\n\ndef _permute_molecule(m: nx.Graph) -> nx.Graph:")],
    silent=True)
add("permutation_enforce_test_in_helper_too_strict", [(GU, "    enforce_permutation = m.number_of_edges() > 1 and nx.density(m) != 1\n    if enforce_permutation:", "    if _can_enforce(m):"),
    (GU, "def _permute_molecule(m: nx.Graph) -> nx.Graph:", "def _can_enforce(m: nx.Graph) -> bool:\n    return m.number_of_edges() > 2 and nx.density(m) != 1\n\n\ndef _permute_molecule(m: nx.Graph) -> nx.Graph:")],
    fires={"R-RETRY"})

add("partition_count_asserted", (CAN, "    m_partitioned = m.copy()\n", "    assert len(partitions) == m.number_of_nodes()\n    m_partitioned = m.copy()\n"), silent=True,
    note="an assertion that holds for every molecule: one list element per atom (size domain, tsa/sizedom.py)")
add("canonical_graph_asserted_new", (CAN, "    return nx.relabel_nodes(m_refined, canonical_labels, copy=True)",
    "    m_canonical = nx.relabel_nodes(m_refined, canonical_labels, copy=True)\n    assert m_canonical is not m_refined and m_canonical is not m\n    return m_canonical"), silent=True)

_RETRY_OLD = """    enforce_permutation = m.number_of_edges() > 1 and nx.density(m) != 1
    if enforce_permutation:
        while m.edges == m_permu.edges:
            m_permu = _permute_molecule(m)

    return m_permu
"""
_RETRY_GUARD = """    if m.number_of_edges() <= 1 or nx.density(m) == 1:
        return m_permu

    while True:
        if %s:
            return m_permu
        m_permu = _permute_molecule(m)
"""
add("permutation_retry_as_endless_loop_with_return", (GU, _RETRY_OLD, _RETRY_GUARD % "not (m.edges == m_permu.edges)"), silent=True,
    note="guard clause for the graphs without enforcement, then `while True` left by a return under the negated bond-set test")
add("permutation_retry_as_endless_loop_returns_unchanged", (GU, _RETRY_OLD, _RETRY_GUARD % "m.edges == m_permu.edges"), fires={"R-RETRY"},
    note="the same with the test the wrong way round: the first candidate that leaves the bonds unchanged is returned")

add("parser_attribute_record_replaced_per_entry", (PAR, "        attrs_for_node = self._node_attributes.setdefault(node_index - 1, {})", "        attrs_for_node = self._node_attributes[node_index - 1] = {}"),
    fires={"R-LISTENSAMPLE", "R-DUPATTR", "R-FLOW-PARSE"}, note="a second attribute of an atom replaces the first: shown on the spelling samples")
add("permutation_relabels_by_enumerate", (GU, "    m_relabeled = nx.relabel_nodes(m, dict(zip(permuted_labels, labels)), copy=True)",
    "    m_relabeled = nx.relabel_nodes(m, {old: new for new, old in enumerate(permuted_labels)}, copy=True)"), fires={"R-PERMSAMPLE"},
    note="the result lives on 0..n-1 instead of the argument's labels (only the sample molecules with other labels show it)")
add("v3000_atom_table_sorted_by_number", (V3, "    return atom_attrs, star_atoms", "    return dict(sorted(atom_attrs.items())), star_atoms"), fires={"R-V3SAMPLE"},
    note="atoms in the order of their numbers in the file, not in file order")

add("parser_bond_adder_asserts_what_the_handler_checked", (PAR, "        self._bonds.append((index1 - 1, index2 - 1))", "        assert index1 != index2\n        self._bonds.append((index1 - 1, index2 - 1))"),
    silent=True, note="the assertion restates the guard in front of the only call (`if index1 == index2: raise`)")
add("parser_bond_adder_asserts_an_order", (PAR, "        self._bonds.append((index1 - 1, index2 - 1))", "        assert index1 < index2\n        self._bonds.append((index1 - 1, index2 - 1))"),
    fires={"R-ESCAPE"}, note="`(2-1)` is a valid tuple: AssertionError instead of a graph (shown on a sample string)")
add("canonical_labels_counted_from_one", (CAN, "for new, old in enumerate(old_labels_in_canonical_order)}", "for new, old in enumerate(old_labels_in_canonical_order, 1)}"),
    fires={"R-BLISS"}, note="a one-to-one renaming, but onto 1..n")
add("sort_relabel_map_one_short", (GU, "list(range(m.number_of_nodes()))", "list(range(m.number_of_nodes() - 1))"), fires={"R-BIJ"},
    note="zip truncates: the last atom keeps its label and can merge with another")
add("refinement_rounds_bounded_by_constant", (CAN, "    while True:\n        m_refined = partition_molecule_by_attribute(m, PARTITION)", "    for _ in range(1000):\n        m_refined = partition_molecule_by_attribute(m, PARTITION)"),
    fires={"R-FIXPOINT"}, note="nothing is handed out when the rounds run out")

add("v3000_endpts_search_untested", (V3, """    if endpts_match is None:
        # silently ignore everything that has no ENDPTS (e.g. use of star atoms in polymers)
        return []
""", ""), fires={"R-NONECHECK"}, note="a star-atom bond without ENDPTS ends in AttributeError")
add("v3000_endpts_search_tested_by_truth", (V3, "    if endpts_match is None:", "    if not endpts_match:"), silent=True)

# ---------------------------------------------------------------- the same thing written another way (probes of absence-based clauses)
add("partition_copy_by_constructor", (CAN, "m_partitioned = m.copy()", "m_partitioned = nx.Graph(m)"), silent=True, note="nx.Graph(m) copies nodes, edges and data like m.copy()")
add("parser_index_check_as_range", (PAR, "if index >= len(self._atoms):", "if not 0 <= index < len(self._atoms):"), silent=True)
add("rank_table_by_enumerate", (CAN, """    unique_attr_seqs_to_partitions = dict(
        zip(unique_attr_seqs, range(len(unique_attr_seqs)))
    )""", "    unique_attr_seqs_to_partitions = {s: i for i, s in enumerate(unique_attr_seqs)}"), silent=True)
add("hydrogen_isotopes_from_table", (EA, """    isotope_mass = 0
    if element_symbol == "D":
        element_symbol = "H"
        isotope_mass = 2
    elif element_symbol == "T":
        element_symbol = "H"
        isotope_mass = 3
    return element_symbol, isotope_mass""", """    isotopes = {"D": 2, "T": 3}
    if element_symbol in isotopes:
        return "H", isotopes[element_symbol]
    return element_symbol, 0"""), silent=True)
add("version_by_plain_split", (RD, 'molfile_version = lines[3].rstrip().split(" ")[-1]', "molfile_version = lines[3].split()[-1]"), silent=True)
add("v2000_index_validation_by_get", (V2, "    if index not in atom_attrs:\n        raise MolfileParserException(f'Unknown atom index {index + 1} in line \"{line}\"')",
    "    if atom_attrs.get(index) is None:\n        raise MolfileParserException(f'Unknown atom index {index + 1} in line \"{line}\"')"), silent=True)

add("explored_reset_by_loop", (SER, "    nx.set_node_attributes(m, False, EXPLORED)\n\n    # outer loop", "    for node in m.nodes:\n        m.nodes[node][EXPLORED] = False\n\n    # outer loop"), silent=True)
add("refinement_stops_when_not_finer", (CAN, "        if get_number_of_partitions(m_refined) == get_number_of_partitions(m):", "        if not get_number_of_partitions(m_refined) > get_number_of_partitions(m):"), silent=True,
    note="refining never merges classes, so `not finer` is `equally fine`")
add("canonical_labels_by_zip_range", (CAN, "    return {old: new for new, old in enumerate(old_labels_in_canonical_order)}", "    return dict(zip(old_labels_in_canonical_order, range(len(old_labels_in_canonical_order))))"), silent=True)

add("v3000_optional_attrs_last_by_index", (V3, "        if val and (value := val.pop()) != 0:\n            atom_attrs[key] = value", "        if val and val[-1] != 0:\n            atom_attrs[key] = val[-1]"), silent=True)
add("v3000_optional_attrs_last_by_index_zero_kept", (V3, "        if val and (value := val.pop()) != 0:\n            atom_attrs[key] = value", "        if val:\n            atom_attrs[key] = val[-1]"), fires={"R-ZERO"})
add("v2000_entries_by_range_step", (V2, """    for i in range(number_of_entries):
        tuple_start = tuple_offset + i * tuple_length""", """    for tuple_start in range(tuple_offset, tuple_offset + number_of_entries * tuple_length, tuple_length):"""), silent=True)
add("v2000_entries_by_range_step_wrong_stride", (V2, """    for i in range(number_of_entries):
        tuple_start = tuple_offset + i * tuple_length""", """    for tuple_start in range(tuple_offset, tuple_offset + number_of_entries * tuple_length, tuple_length - 1):"""), fires={"R-COLS"})

# ---------------------------------------------------------------- spelling of the attribute names
GA = "tucan/graph_attributes.py"
add("attribute_names_respelled", [(GA, 'MASS = "mass"', 'MASS = "isotope_mass"'), (GA, 'CHG = "chg"', 'CHG = "formal_charge"'), (GA, 'BOND_TYPE = "bond_type"', 'BOND_TYPE = "order"'),
    (GA, 'PARTITION = "partition"', 'PARTITION = "tucan_partition"')], silent=True,
    note="the names under which attributes are stored are spelled once and used through the constants: another spelling is no other behaviour")
add("attribute_name_respelled_but_literal_used", [(GA, 'MASS = "mass"', 'MASS = "isotope_mass"'),
    (SER, "            for attr in _SERIALIZER_NODE_ATTRIBUTE_MAPPING\n            if attr in attrs", "            for attr in _SERIALIZER_NODE_ATTRIBUTE_MAPPING\n            if attr in attrs or \"mass\" in attrs")],
    fires={"R-ATTRREAD"}, note="a literal spelling in the place of a key has to agree with the constant: the spellings are then analysed as written")
add("attribute_names_collide", [(GA, 'RAD = "rad"', 'RAD = "mass"')], fires={"R-KEYS"}, note="two attributes stored under one name")

# ---------------------------------------------------------------- determinism
add("timestamp_in_serializer", [(SER, '''    serialization = _write_sum_formula(m_sorted)''', '''    import time
    serialization = _write_sum_formula(m_sorted) if time.time() > 0 else ""'''), ], fires={"R-NONDET"})
add("module_level_cache", (CAN, '''def get_number_of_partitions(m: nx.Graph) -> int:
    return max(''', '''_CACHE: dict = {}


def get_number_of_partitions(m: nx.Graph) -> int:
    _CACHE[id(m)] = 1
    return max('''), fires={"R-GLOBAL"})

# ---------------------------------------------------------------- grammar
add("g4_tuple_allows_colon", (G4, "tuple : '(' node_index '-' node_index ')' ;", "tuple : '(' node_index ('-' | ':') node_index ')' ;"), fires={"R-GRAM3"})
add("g4_rules_renamed", [(G4, "tuples : tuple* ;", "tuples : bond* ;"), (G4, "tuple : '(' node_index '-' node_index ')' ;", "bond : '(' node_index '-' node_index ')' ;")], silent=True,
    note="renaming a rule in the .g4 only (language unchanged) — R-GRAM3 compares languages")
add("ebnf_value_allows_zero", (EBNF, 'node_property_value ::= greater_than_zero', 'node_property_value ::= greater_than_zero | "0"'), fires={"R-GRAM3", "R-LEX"})


def by_rule(rule_ids: set[str]) -> list[Variant]:
    return [v for v in V if (v.fires & rule_ids) or v.silent]


def _run_one(args):
    prop, name, root = args
    from .check import Ctx, decide
    v = next(x for x in V if x.name == name)
    ov = apply(root, v)
    if ov is None:
        return {"variant": name, "status": "skipped", "why": "anchor text not present in the current tree"}
    repo = Repo(root, ov)
    ctx = Ctx(repo, "quick")
    for k, val in v.env.items():
        ctx.cache[k] = val
    try:
        _, results, violations, hits = decide(prop, "quick", repo=repo, ctx=ctx)
    except AnalysisError as e:
        return {"variant": name, "status": "error", "why": str(e)[:300]}
    fired = sorted({f.rule for f in violations})
    errors = [f"{r.rule}: {r.error}"[:200] for r in results if r.error]
    constructs = [f"{f.rule}: {f.file}:{f.function}: {f.construct[:80]}" for f in violations][:6]
    return {"variant": name, "status": "ran", "fired": fired, "errors": errors, "constructs": constructs}


REFACTOR_DIR = os.path.join(os.path.dirname(os.path.dirname(os.path.abspath(__file__))), "refactors")


def refactor_overlay(root: str, d: str):
    """whole-file overlay of an imported behaviour-preserving refactoring, or None when the files it replaces are no
    longer the ones it was made from"""
    import hashlib
    import json
    meta = json.load(open(os.path.join(d, "meta.json")))
    ov = {}
    for rel, sha in meta["base_sha256"].items():
        cur = os.path.join(root, rel)
        if sha is not None and (not os.path.exists(cur) or hashlib.sha256(open(cur, "rb").read()).hexdigest() != sha):
            return None
        ov[rel] = open(os.path.join(d, "files", rel)).read()
    return ov


def _run_refactor(args):
    prop, d, root = args
    from .check import Ctx, decide
    if d.startswith("renamed:"):
        from .renamer import renamed_overlay
        name = d
        ov = renamed_overlay(root, d.split(":", 1)[1])
    elif d.startswith("rewritten:"):
        from .renamer import rewritten_overlay
        name = d
        ov = rewritten_overlay(root, d.split(":", 1)[1])
    else:
        name = "refactoring:" + os.path.basename(d.rstrip("/"))
        ov = refactor_overlay(root, d)
    if ov is None:
        return {"variant": name, "status": "skipped", "why": "the files this refactoring replaces have changed"}
    repo = Repo(root, ov)
    ctx = Ctx(repo, "quick")
    try:
        _, results, violations, hits = decide(prop, "quick", repo=repo, ctx=ctx)
    except AnalysisError as e:
        return {"variant": name, "status": "ran", "fired": [], "errors": [str(e)[:200]], "constructs": []}
    fired = sorted({f.rule for f in violations})
    errors = [f"{r.rule}: {r.error}"[:200] for r in results if r.error]
    constructs = [f"{f.rule}: {f.file}:{f.function}: {f.construct[:80]}" for f in violations][:6]
    return {"variant": name, "status": "ran", "fired": fired, "errors": errors, "constructs": constructs}


def _workers(n_jobs: int) -> int:
    """as many workers as there are jobs, cores (16 at most) and memory for (each worker may take about 2.5 GB)"""
    w = min(16, os.cpu_count() or 1, max(1, n_jobs))
    try:
        for line in open("/proc/meminfo"):
            if line.startswith("MemAvailable:"):
                w = max(1, min(w, int(int(line.split()[1]) / 1024 / 1024 / 2.5)))
    except OSError:
        pass
    return w


def _pmap(fn, jobs: list) -> list:
    """fn over jobs in worker processes; jobs whose worker died (out of memory on a crowded machine) are redone one by one
    in this process"""
    from concurrent.futures.process import BrokenProcessPool
    done: dict = {}
    try:
        with ProcessPoolExecutor(max_workers=_workers(len(jobs))) as ex:
            futs = {i: ex.submit(fn, j) for i, j in enumerate(jobs)}
            for i, f in futs.items():
                try:
                    done[i] = f.result()
                except BrokenProcessPool:
                    pass
    except BrokenProcessPool:
        pass
    for i, j in enumerate(jobs):
        if i not in done:
            done[i] = fn(j)
    return [done[i] for i in range(len(jobs))]


def run_for_property(prop: str) -> dict:
    from .props import PROPERTIES
    root = os.environ.get("TUCAN_REPO", "/repo")
    rules = set(PROPERTIES[prop]["rules"]) | set(PROPERTIES[prop].get("thorough_rules", []))
    todo = by_rule(rules)
    jobs = [(prop, v.name, root) for v in todo]
    out = _pmap(_run_one, jobs)
    disagreements = []
    n_fire = n_silent = n_skip = 0
    for v, r in zip(todo, out):
        r["expected"] = "silent" if v.silent else "fire:" + ",".join(sorted(v.fires & rules))
        if r["status"] == "skipped":
            n_skip += 1
            continue
        if r["status"] == "error":
            disagreements.append(f"{v.name}: checker error {r['why']}")
            continue
        if v.silent:
            n_silent += 1
            if r["fired"] or r["errors"]:
                disagreements.append(f"{v.name}: behaviour-preserving variant but {r['fired'] or r['errors']} reported")
        else:
            n_fire += 1
            want = v.fires & rules
            if not (set(r["fired"]) & want):
                disagreements.append(f"{v.name}: expected one of {sorted(want)} to fire, observed {r['fired']} errors {r['errors']}")
    # whole-module refactorings that keep behaviour: no rule of this property may report a finding on them
    # (a rule may be unable to decide a heavily rewritten module; that is counted, not a disagreement)
    import glob
    rdirs = sorted(glob.glob(os.path.join(REFACTOR_DIR, "*", "")))
    # ... and a copy of the package with every local variable and private function / constant renamed consistently
    rdirs = ["renamed:both"] + [f"rewritten:{h}" for h in ("invert-if", "temp-return", "const-extract", "reorder-defs", "fstring-to-format")] + rdirs
    n_ref = n_undecided = 0
    if rdirs:
        rout = _pmap(_run_refactor, [(prop, d, root) for d in rdirs])
        for r in rout:
            r["expected"] = "no finding"
            if r["status"] == "skipped":
                n_skip += 1
                continue
            n_ref += 1
            if r["fired"]:
                disagreements.append(f"{r['variant']}: behaviour-preserving refactoring but {r['fired']} reported ({r['constructs'][:2]})")
            elif r["errors"] and r["variant"].startswith(("renamed:", "rewritten:")):
                disagreements.append(f"{r['variant']}: a consistent renaming leaves {r['errors'][:2]} undecided (a rule reads names)")
            elif r["errors"]:
                n_undecided += 1
        out += rout
    return {"summary": f"{n_fire} must-fire + {n_silent} must-stay-silent variants agreed, {n_ref} refactorings without finding ({n_undecided} of them undecided), "
                       f"{n_skip} skipped, {len(disagreements)} disagreements",
            "variants": out, "disagreements": disagreements}


if __name__ == "__main__":
    import json
    import sys
    print(json.dumps(run_for_property(sys.argv[1]), indent=1))
