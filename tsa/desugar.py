"""`match` statements rewritten as if / elif chains before any interpreter sees the tree.

Only the analysis reads the rewritten tree; nothing is run.  Supported: value and singleton patterns, captures and the
wildcard, or-patterns without captures, sequence patterns (with one star), mapping patterns (with **rest), `str()` / `int()` /
... class patterns, `as` bindings, guards.  A `match` with any other pattern is left as it is (the interpreters then say that
they do not read it)."""
from __future__ import annotations

import ast
import copy


class _NoDesugar(Exception):
    pass


_BUILTIN_CLASSES = ("str", "int", "float", "bool", "list", "tuple", "dict", "set", "bytes")


def _and(parts):
    parts = [p for p in parts if not (isinstance(p, ast.Constant) and p.value is True)]
    if not parts:
        return ast.Constant(True)
    return parts[0] if len(parts) == 1 else ast.BoolOp(ast.And(), parts)


def _test(pat, e, binds: list):
    """test expression for `pat` matching the value of expression `e`; captures are appended to binds as (name, expr)"""
    if isinstance(pat, ast.MatchValue):
        return ast.Compare(copy.deepcopy(e), [ast.Eq()], [copy.deepcopy(pat.value)])
    if isinstance(pat, ast.MatchSingleton):
        return ast.Compare(copy.deepcopy(e), [ast.Is()], [ast.Constant(pat.value)])
    if isinstance(pat, ast.MatchAs):
        t = _test(pat.pattern, e, binds) if pat.pattern is not None else ast.Constant(True)
        if pat.name is not None:
            binds.append((pat.name, copy.deepcopy(e)))
        return t
    if isinstance(pat, ast.MatchOr):
        alts = []
        for alt in pat.patterns:
            b2: list = []
            alts.append(_test(alt, e, b2))
            if b2:
                raise _NoDesugar("captures inside an or-pattern")
        return ast.BoolOp(ast.Or(), alts)
    if isinstance(pat, ast.MatchSequence):
        stars = [i for i, p in enumerate(pat.patterns) if isinstance(p, ast.MatchStar)]
        n = len(pat.patterns)
        if isinstance(e, (ast.Tuple, ast.List)) and not stars and len(e.elts) == n and not any(isinstance(x, ast.Starred) for x in e.elts):
            # the subject is written out: element against element
            return _and([_test(p, x, binds) for p, x in zip(pat.patterns, e.elts)])
        length = ast.Call(ast.Name("len", ast.Load()), [copy.deepcopy(e)], [])
        if not stars:
            parts = [ast.Compare(length, [ast.Eq()], [ast.Constant(n)])]
            for i, p in enumerate(pat.patterns):
                parts.append(_test(p, ast.Subscript(copy.deepcopy(e), ast.Constant(i), ast.Load()), binds))
            return _and(parts)
        if len(stars) > 1:
            raise _NoDesugar("two stars")
        i0 = stars[0]
        after = n - i0 - 1
        parts = [ast.Compare(length, [ast.GtE()], [ast.Constant(n - 1)])]
        for i, p in enumerate(pat.patterns[:i0]):
            parts.append(_test(p, ast.Subscript(copy.deepcopy(e), ast.Constant(i), ast.Load()), binds))
        for j, p in enumerate(pat.patterns[i0 + 1:]):
            parts.append(_test(p, ast.Subscript(copy.deepcopy(e), ast.Constant(-(after - j)), ast.Load()), binds))
        if pat.patterns[i0].name is not None:
            upper = ast.UnaryOp(ast.USub(), ast.Constant(after)) if after else None
            binds.append((pat.patterns[i0].name, ast.Call(ast.Name("list", ast.Load()), [ast.Subscript(copy.deepcopy(e), ast.Slice(ast.Constant(i0), upper, None), ast.Load())], [])))
        return _and(parts)
    if isinstance(pat, ast.MatchMapping):
        parts = []
        for k, p in zip(pat.keys, pat.patterns):
            parts.append(ast.Compare(copy.deepcopy(k), [ast.In()], [copy.deepcopy(e)]))
        for k, p in zip(pat.keys, pat.patterns):
            parts.append(_test(p, ast.Subscript(copy.deepcopy(e), copy.deepcopy(k), ast.Load()), binds))
        if pat.rest is not None:
            keys = ast.Tuple([copy.deepcopy(k) for k in pat.keys], ast.Load())
            comp = ast.DictComp(ast.Name("__k", ast.Load()), ast.Name("__v", ast.Load()),
                                [ast.comprehension(ast.Tuple([ast.Name("__k", ast.Store()), ast.Name("__v", ast.Store())], ast.Store()),
                                                   ast.Call(ast.Attribute(copy.deepcopy(e), "items", ast.Load()), [], []),
                                                   [ast.Compare(ast.Name("__k", ast.Load()), [ast.NotIn()], [keys])], 0)])
            binds.append((pat.rest, comp))
        return _and(parts)
    if isinstance(pat, ast.MatchClass):
        cname = pat.cls.id if isinstance(pat.cls, ast.Name) else None
        if cname in _BUILTIN_CLASSES and not pat.kwd_patterns and len(pat.patterns) <= 1:
            parts = [ast.Call(ast.Name("isinstance", ast.Load()), [copy.deepcopy(e), ast.Name(cname, ast.Load())], [])]
            if pat.patterns:
                parts.append(_test(pat.patterns[0], e, binds))
            return _and(parts)
        raise _NoDesugar("class pattern")
    raise _NoDesugar(type(pat).__name__)


class _Subst(ast.NodeTransformer):
    def __init__(self, mapping):
        self.mapping = mapping

    def visit_Name(self, node):
        if isinstance(node.ctx, ast.Load) and node.id in self.mapping:
            return copy.deepcopy(self.mapping[node.id])
        return node


class MatchDesugar(ast.NodeTransformer):
    def __init__(self):
        self.count = 0
        self.left = 0

    def visit_Match(self, node: ast.Match):
        self.generic_visit(node)
        try:
            return self._rewrite(node)
        except _NoDesugar:
            self.left += 1
            return node

    def _rewrite(self, node: ast.Match):
        pre = []
        subj = node.subject
        def plain(x):
            # names, constants and attribute chains on names: reading them twice is reading them once
            while isinstance(x, ast.Attribute):
                x = x.value
            return isinstance(x, (ast.Name, ast.Constant))
        simple = plain(subj) or (isinstance(subj, (ast.Tuple, ast.List)) and all(plain(x) for x in subj.elts))
        if not simple:
            tmp = f"_match_subject_{node.lineno}"
            pre.append(ast.Assign([ast.Name(tmp, ast.Store())], subj))
            subj = ast.Name(tmp, ast.Load())
        chain = None
        tail = None
        for case in node.cases:
            binds: list = []
            test = _test(case.pattern, subj, binds)
            if case.guard is not None:
                g = _Subst(dict(binds)).visit(copy.deepcopy(case.guard))
                test = _and([test, g])
            body = [ast.Assign([ast.Name(nm, ast.Store())], ex) for nm, ex in binds] + list(case.body)
            if isinstance(test, ast.Constant) and test.value is True:
                # irrefutable: the else branch of what came before
                if chain is None:
                    chain = tail = ast.If(ast.Constant(True), body, [])
                else:
                    tail.orelse = body
                tail = None
                break
            new = ast.If(test, body, [])
            if chain is None:
                chain = new
            else:
                tail.orelse = [new]
            tail = new
        self.count += 1
        out = pre + ([chain] if chain is not None else [])
        for st in out:
            ast.copy_location(st, node)
        for st in out:
            ast.fix_missing_locations(st)
        return out


# leading parameters of networkx functions the analyses have summaries for: a call that names them (`mapping=...`) is the
# same call as one that passes them by position, and is read as that
_LEADING_PARAMS = {
    "relabel_nodes": ("G", "mapping"),
    "set_node_attributes": ("G", "values"),
    "set_edge_attributes": ("G", "values"),
    "get_node_attributes": ("G", "name"),
    "get_edge_attributes": ("G", "name"),
}


def _positional_library_arguments(tree: ast.Module) -> None:
    for n in ast.walk(tree):
        if not (isinstance(n, ast.Call) and isinstance(n.func, ast.Attribute) and n.func.attr in _LEADING_PARAMS and n.keywords):
            continue
        if any(isinstance(a, ast.Starred) for a in n.args) or any(k.arg is None for k in n.keywords):
            continue
        names = _LEADING_PARAMS[n.func.attr]
        while len(n.args) < len(names):
            nxt = names[len(n.args)]
            kw = next((k for k in n.keywords if k.arg == nxt), None)
            if kw is None:
                break
            n.args.append(kw.value)
            n.keywords.remove(kw)


class _MapGetitem(ast.NodeTransformer):
    """map(table.__getitem__, xs)  ->  (table[_m] for _m in xs): the same elements in the same order, in the form the
    interpreters read"""

    def visit_Call(self, node):
        self.generic_visit(node)
        if isinstance(node.func, ast.Name) and node.func.id == "map" and len(node.args) == 2 and not node.keywords \
                and isinstance(node.args[0], ast.Attribute) and node.args[0].attr == "__getitem__":
            var = ast.Name(id="_m", ctx=ast.Load())
            gen = ast.GeneratorExp(elt=ast.Subscript(value=node.args[0].value, slice=var, ctx=ast.Load()),
                                   generators=[ast.comprehension(target=ast.Name(id="_m", ctx=ast.Store()), iter=node.args[1], ifs=[], is_async=0)])
            return ast.copy_location(gen, node)
        return node


def desugar(tree: ast.Module) -> tuple[ast.Module, int, int]:
    """-> (tree, matches rewritten, matches left alone)"""
    _positional_library_arguments(tree)
    if any(isinstance(n, ast.Attribute) and n.attr == "__getitem__" for n in ast.walk(tree)):
        tree = _MapGetitem().visit(tree)
        ast.fix_missing_locations(tree)
    if not any(isinstance(n, ast.Match) for n in ast.walk(tree)):
        return tree, 0, 0
    d = MatchDesugar()
    tree = d.visit(tree)
    ast.fix_missing_locations(tree)
    return tree, d.count, d.left
