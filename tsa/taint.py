"""T-domain: information-flow taint interpreter for the canonicalisation and
serialisation pipelines.

A taint is a pair (KIND, origin text); KIND in
  LABEL  depends on the arbitrary numbering of the atoms
  ORDER  depends on listing / insertion order (node order, neighbour order, edge order, edge orientation)
  HASH   depends on set iteration order (hash seed)
  UNSUM  came out of a call for which there is no summary

Values (class V) carry `t` (taint of the value itself), and for containers an
element value, an *order taint* `ot` (what the element order depends on) and an
*order identity* `oid` (a symbol naming what the order is aligned with: two
sequences with equal oid can be zipped without the pairing depending on the
order itself).
"""
from __future__ import annotations

import ast
import itertools
from typing import Optional

from .model import AnalysisError, FuncInfo, NotConst, Repo, norm, short

ORDER, LABEL, HASH, UNSUM = "ORDER", "LABEL", "HASH", "UNSUM"
E: frozenset = frozenset()


def T(kind, origin):
    return frozenset({(kind, origin)})


def kinds(t) -> set:
    return {k for k, _ in t}


def only(t, *ks):
    return frozenset(x for x in t if x[0] in ks)


def without(t, *ks):
    return frozenset(x for x in t if x[0] not in ks)


class V:
    __slots__ = ("kind", "t", "elem", "ot", "oid", "items", "x")

    def __init__(self, kind, t=E, elem=None, ot=E, oid=None, items=None, x=None):
        self.kind, self.t, self.elem, self.ot, self.oid, self.items, self.x = kind, frozenset(t), elem, frozenset(ot), oid, items, x

    def __repr__(self):
        d = {"t": sorted(kinds(self.t)) or None, "ot": sorted(kinds(self.ot)) or None, "oid": self.oid, "elem": self.elem, "items": self.items}
        return f"{self.kind}(" + ", ".join(f"{k}={v}" for k, v in d.items() if v) + ")"


def sc(t=E):
    return V("scalar", t)


def nothing_yet():
    """element of a container that is still empty: joined with the first real element it disappears"""
    return V("scalar", E, x="empty")


def seq(elem, ot=E, oid=None, t=E):
    return V("seq", t, elem if elem is not None else nothing_yet(), ot, oid)


def mp(val, ot=E, oid=None, key=None):
    return V("map", E, val if val is not None else nothing_yet(), ot, oid, x=key)


def tup(items):
    return V("tuple", E, items=list(items))


def tt(v, _d=0) -> frozenset:
    """all taint inside v (value consumed as a whole, order included)"""
    if v is None or _d > 8:
        return E
    r = set(v.t) | set(v.ot)
    if v.kind == "inst":
        for f_ in v.x[1].values():
            r |= tt(f_, _d + 1)
        return frozenset(r)
    if v.elem is not None:
        r |= tt(v.elem, _d + 1)
    if v.kind == "map" and isinstance(v.x, V):
        r |= tt(v.x, _d + 1)
    if v.items:
        for i in (v.items.values() if isinstance(v.items, dict) else v.items):
            r |= tt(i, _d + 1)
    return frozenset(r)


def vt(v, _d=0) -> frozenset:
    """taint of the values only: the order of the *outermost* container is ignored; the internal order of
    elements that are containers themselves is part of their value (it matters when they are compared,
    sorted, hashed or used as keys)"""
    if v is None or _d > 8:
        return E
    r = set(v.t)
    if v.kind == "inst":
        for f_ in v.x[1].values():
            r |= tt(f_, _d + 1)
        return frozenset(r)
    if v.elem is not None:
        r |= tt(v.elem, _d + 1)
    if v.kind == "map" and isinstance(v.x, V):
        r |= tt(v.x, _d + 1)
    if v.items:
        for i in (v.items.values() if isinstance(v.items, dict) else v.items):
            r |= tt(i, _d + 1)
    return frozenset(r)


def size_t(v) -> frozenset:
    """taint of the truth value / length of v: for a container only what decides which elements it has (its own taint),
    not their values and not their order"""
    if v is None:
        return E
    if v.kind in ("seq", "map", "tuple", "graph", "nodeview"):
        return frozenset(v.t)
    return vt(v)


def join_all(vs):
    r = None
    for v in vs:
        r = join(r, v)
    return r


def add(v: V, t) -> V:
    if not t:
        return v
    if v.kind == "inst":
        return V("inst", v.t | frozenset(t), x=v.x)
    return V(v.kind, v.t | frozenset(t), v.elem, v.ot, v.oid, v.items, v.x)


def join(a: Optional[V], b: Optional[V], _d=0) -> Optional[V]:
    if a is None:
        return b
    if b is None:
        return a
    if a is b:
        return a
    if _d > 8:
        return sc(tt(a) | tt(b))
    if a.kind == "scalar" and a.x == "empty" and not a.t:
        return b
    if b.kind == "scalar" and b.x == "empty" and not b.t:
        return a
    if a.kind == b.kind == "seq":
        return V("seq", a.t | b.t, join(a.elem, b.elem, _d + 1), a.ot | b.ot, a.oid if a.oid == b.oid else ("join", a.oid, b.oid))
    if a.kind == b.kind == "map":
        return V("map", a.t | b.t, join(a.elem, b.elem, _d + 1), a.ot | b.ot, a.oid if a.oid == b.oid else None,
                 x=join(a.x, b.x, _d + 1) if isinstance(a.x, V) and isinstance(b.x, V) else (a.x if isinstance(a.x, V) else b.x))
    if a.kind == b.kind == "tuple" and len(a.items) == len(b.items):
        return tup(join(x, y, _d + 1) for x, y in zip(a.items, b.items))
    if a.kind == b.kind == "graph":
        g = dict(a.x)
        for k, v in b.x.items():
            g[k] = g.get(k, E) | v
        return V("graph", a.t | b.t, ot=a.ot | b.ot, oid=a.oid if a.oid == b.oid else ("join", a.oid, b.oid), x=g)
    if a.kind == b.kind == "inst" and a.x[0] is b.x[0]:
        flds = {}
        for k in set(a.x[1]) | set(b.x[1]):
            flds[k] = join(a.x[1].get(k), b.x[1].get(k), _d + 1)
        return V("inst", a.t | b.t, x=(a.x[0], flds))
    if a.kind == "none":
        return b
    if b.kind == "none":
        return a
    if a.kind == b.kind and a.kind in ("scalar", "const", "node"):
        return V(a.kind if a.kind != "const" or a.x == b.x else "scalar", a.t | b.t, x=a.x if a.kind == "const" and a.x == b.x else None)
    if a.kind == b.kind:
        return V(a.kind, a.t | b.t, a.elem, a.ot | b.ot, a.oid, a.items, a.x)
    return sc(tt(a) | tt(b))


class Sink:
    def __init__(self, what, fi, node, taint, detail=""):
        self.what, self.fi, self.node, self.taint, self.detail = what, fi, node, frozenset(taint), detail


class Frame:
    def __init__(self, fi):
        self.fi = fi
        self.ret = None
        self.yields = None


class TaintInterp:
    MAX_DEPTH = 14

    def __init__(self, repo: Repo, label_ctx: bool, bliss_convention: Optional[str] = None):
        self.repo = repo
        self.label_ctx = label_ctx          # node ids are arbitrary (before the bliss relabelling)
        self.conv = bliss_convention        # 'FWD' | 'INV' | None (unknown igraph release)
        self.fresh = itertools.count()
        self.sinks: list[Sink] = []
        self.notes: list[str] = []
        self.stack: dict[str, V] = {}
        self.frames: list[Frame] = []
        self.cg = repo.callgraph()
        self.n_sources = 0
        self.source_sites: dict[str, int] = {}

    # ---- helpers
    def src(self, kind, fi, node, what):
        o = f"{what} [{fi.module.rel.rsplit('/', 1)[-1]}:{getattr(node, 'lineno', '?')} {fi.qualname}]"
        self.source_sites[f"{kind}:{o}"] = self.source_sites.get(f"{kind}:{o}", 0) + 1
        return T(kind, o)

    def graph(self, oid=None, attrs=None, t=E):
        return V("graph", t, oid=oid or f"G{next(self.fresh)}", x=dict(attrs or {}))

    def node(self, g=None, extra=E, origin=None):
        gt = g.t if (g is not None and g.kind == "graph") else E
        lab = T(LABEL, origin or "node id (arbitrary numbering)") if self.label_ctx and not (g is not None and g.kind == "graph" and g.x.get("__canonical__")) else E
        return V("node", lab | frozenset(extra) | gt)

    # ---- calls
    # ---- iteration-order context: the order taints of the loops being executed (in this or a calling function) and, for
    #      each, the names whose value survives an iteration.  Conditions go into `pc`; the order of a loop matters only
    #      where something is accumulated (appended, concatenated, inserted, yielded, kept for the next iteration).
    def oc(self, selected_by=()) -> frozenset:
        """order taint of the loops being executed; a loop whose variable (a node id, unique per pass) selects the object
        that is being changed does not order the changes made to that object: every pass works on another one"""
        r = set()
        for ent in getattr(self, "octx", []):
            if selected_by and len(ent) > 2 and ent[2] & set(selected_by):
                continue
            r |= ent[0]
        return frozenset(r)

    def oc_for(self, name: str) -> frozenset:
        r = set()
        for ent in getattr(self, "octx", []):
            ot, carried = ent[0], ent[1]
            if carried is None or name in carried:
                r |= ot
        return frozenset(r)

    @staticmethod
    def _selector_names(expr) -> set:
        """names that pick the object `expr` denotes out of a container:  X[k] / X.setdefault(k, ..) / X.get(k) -> {k}"""
        out = set()
        while True:
            if isinstance(expr, ast.Subscript):
                if isinstance(expr.slice, ast.Name):
                    out.add(expr.slice.id)
                expr = expr.value
            elif isinstance(expr, ast.Call) and isinstance(expr.func, ast.Attribute) and expr.func.attr in ("setdefault", "get") and expr.args:
                if isinstance(expr.args[0], ast.Name):
                    out.add(expr.args[0].id)
                expr = expr.func.value
            else:
                return out

    @staticmethod
    def _carried_names(fn_node, loop) -> Optional[set]:
        """names bound in the loop body whose value is used after the loop or before being bound again in the next
        iteration; None = all (the loop can be left early)"""
        body = ast.Module(loop.body, [])
        if any(isinstance(x, (ast.Break, ast.Return)) for x in ast.walk(body)):
            return None
        comp_bound = {id(n) for c in ast.walk(body) if isinstance(c, (ast.ListComp, ast.SetComp, ast.DictComp, ast.GeneratorExp))
                      for g in c.generators for n in ast.walk(g.target) if isinstance(n, ast.Name)}
        comp_names = {n.id for c in ast.walk(body) if isinstance(c, (ast.ListComp, ast.SetComp, ast.DictComp, ast.GeneratorExp))
                      for g in c.generators for n in ast.walk(g.target) if isinstance(n, ast.Name)}
        stored = {x.id: x for x in ast.walk(body) if isinstance(x, ast.Name) and isinstance(x.ctx, ast.Store) and id(x) not in comp_bound}
        for x in ast.walk(loop.target):
            if isinstance(x, ast.Name):
                stored.setdefault(x.id, x)
        carried = set()
        end = getattr(loop, "end_lineno", loop.lineno)
        # places after the loop where a name is bound afresh: comprehension generators (their own scope), targets of later
        # loops, later plain assignments.  A read that comes after such a binding does not see this loop's value.
        rebinds: dict[str, list] = {}
        comp_scopes = []
        for x in ast.walk(fn_node):
            if isinstance(x, (ast.ListComp, ast.SetComp, ast.DictComp, ast.GeneratorExp)) and x.lineno > end:
                names = {n.id for g in x.generators for n in ast.walk(g.target) if isinstance(n, ast.Name)}
                comp_scopes.append((x, names))
            if isinstance(x, ast.For) and x.lineno > end:
                for n in ast.walk(x.target):
                    if isinstance(n, ast.Name):
                        rebinds.setdefault(n.id, []).append((x.lineno, x.col_offset))
            if isinstance(x, (ast.Assign, ast.AnnAssign)) and x.lineno > end and not any(x is y for y in ast.walk(body)):
                for t in (x.targets if isinstance(x, ast.Assign) else [x.target]):
                    for n in ast.walk(t):
                        if isinstance(n, ast.Name) and isinstance(n.ctx, ast.Store):
                            rebinds.setdefault(n.id, []).append((x.end_lineno, x.end_col_offset))
        for x in ast.walk(fn_node):
            if isinstance(x, ast.Name) and isinstance(x.ctx, ast.Load) and x.id in stored:
                if x.lineno > end:
                    if any(x.id in names and any(x is y for y in ast.walk(c)) for c, names in comp_scopes):
                        continue
                    if any(pos <= (x.lineno, x.col_offset) for pos in rebinds.get(x.id, [])):
                        continue
                    carried.add(x.id)           # read after the loop: the value of the last iteration
        # read in the body before (textually) its first binding there: value of the previous iteration
        first_store = {}
        for x in ast.walk(body):
            if isinstance(x, ast.Name) and isinstance(x.ctx, ast.Store) and id(x) not in comp_bound:
                pos = (x.lineno, x.col_offset)
                if x.id not in first_store or pos < first_store[x.id]:
                    first_store[x.id] = pos
        for x in ast.walk(body):
            if isinstance(x, ast.Name) and isinstance(x.ctx, ast.Load) and x.id in first_store and (x.lineno, x.col_offset) < first_store[x.id]:
                carried.add(x.id)
            if isinstance(x, ast.AugAssign) and isinstance(x.target, ast.Name):
                carried.add(x.target.id)
        return carried

    def call_fn(self, fi: FuncInfo, args, kwargs=None, pc=E, closure_env=None):
        if fi.fq in self.stack:
            return self.stack[fi.fq]          # provisional summary for recursion
        if len(self.stack) > self.MAX_DEPTH:
            raise AnalysisError(f"taint interpreter: call depth exceeded at {fi.fq}")
        self.stack[fi.fq] = V("seq", E, None, E, "gen") if _is_generator(fi.node) else V("none")
        fr = Frame(fi)
        fr.octx_base = len(getattr(self, "octx", []))
        self.frames.append(fr)
        try:
            result = None
            for _round in range(2 if _is_recursive(self, fi) else 1):
                env = dict(closure_env) if closure_env else {}
                fn = fi.node
                params = [a.arg for a in fn.args.posonlyargs + fn.args.args]
                defaults = fn.args.defaults
                for i, p in enumerate(params):
                    if i < len(args):
                        env[p] = args[i]
                    elif kwargs and p in kwargs:
                        env[p] = kwargs[p]
                    else:
                        di = i - (len(params) - len(defaults))
                        env[p] = self.ev(defaults[di], {}, pc, fi) if 0 <= di < len(defaults) else sc()
                fr.ret = None
                fr.yields = None
                self.block(fn.body, env, fr, pc)
                result = seq(fr.yields, getattr(fr, "yield_ot", E), "gen") if (fr.yields is not None or _is_generator(fn)) else (fr.ret if fr.ret is not None else V("none"))
                self.stack[fi.fq] = result
            return result
        finally:
            del self.stack[fi.fq]
            self.frames.pop()

    # ---- statements
    def block(self, body, env, fr, pc):
        for st in body:
            if self.stmt(st, env, fr, pc):
                return True
        return False

    def stmt(self, st, env, fr, pc) -> bool:
        fi = fr.fi
        if isinstance(st, ast.Expr):
            if isinstance(st.value, ast.Constant):
                return False
            if isinstance(st.value, (ast.Yield, ast.YieldFrom)):
                v = self.ev(st.value.value, env, pc, fi) if st.value.value is not None else V("none")
                if isinstance(st.value, ast.YieldFrom):
                    v = v.elem if v.elem is not None else V("none")
                fr.yields = join(fr.yields, add(v, pc))
                if self.oc():
                    fr.yield_ot = getattr(fr, "yield_ot", E) | self.oc()
                return False
            self.ev(st.value, env, pc, fi)
            return False
        if isinstance(st, ast.Assign):
            v = self.ev(st.value, env, pc, fi)
            for tg in st.targets:
                self.assign(tg, v, env, pc, fi)
            return False
        if isinstance(st, ast.AnnAssign):
            if st.value is not None:
                self.assign(st.target, self.ev(st.value, env, pc, fi), env, pc, fi)
            return False
        if isinstance(st, ast.AugAssign):
            cur = self.ev(st.target, env, pc, fi)
            v = self.ev(st.value, env, pc, fi)
            if cur.kind == "seq" and v.kind == "seq" and isinstance(st.op, ast.Add):
                self.assign(st.target, seq(join(cur.elem, v.elem), cur.ot | v.ot | pc | self.oc(), ("cat", cur.oid, v.oid)), env, pc, fi)
            else:
                # string / number accumulation is order sensitive: inherits the order taint of the enclosing iterations
                self.assign(st.target, add(sc(tt(cur) | tt(v)), pc | self.oc()), env, pc, fi)
            return False
        if isinstance(st, ast.Return):
            v = self.ev(st.value, env, pc, fi) if st.value is not None else V("none")
            # a return from inside a loop hands out what the first suitable iteration produced
            inner = frozenset().union(*[ent[0] for ent in getattr(self, "octx", [])[getattr(fr, "octx_base", 0):]]) if getattr(self, "octx", None) else E
            fr.ret = join(fr.ret, add(v, pc | inner))
            return True
        if isinstance(st, ast.If) and not st.orelse and len(st.body) == 1 and isinstance(st.body[0], ast.Assign) and isinstance(st.test, ast.Compare) \
                and len(st.test.ops) == 1 and isinstance(st.test.ops[0], (ast.Lt, ast.LtE, ast.Gt, ast.GtE)) \
                and isinstance(st.test.left, ast.Name) and isinstance(st.test.comparators[0], ast.Name):
            # if b < a: a, b = b, a   -- the two names end up in value order
            sw = st.body[0]
            l, r = st.test.left.id, st.test.comparators[0].id
            if len(sw.targets) == 1 and isinstance(sw.targets[0], ast.Tuple) and isinstance(sw.value, ast.Tuple) \
                    and [norm(x) for x in sw.targets[0].elts] in ([l, r], [r, l]) and [norm(x) for x in sw.value.elts] == [norm(x) for x in reversed(sw.targets[0].elts)] \
                    and l in env and r in env and l != r:
                x, y = self._strip_orientation(env[l], env[r])
                j = join(x, y)
                env[l], env[r] = j, j
                return False
        if isinstance(st, ast.If):
            c = self.ev(st.test, env, pc, fi)
            e1, e2 = dict(env), dict(env)
            ct = size_t(c)
            t1 = self.block(st.body, e1, fr, pc | ct)
            t2 = self.block(st.orelse, e2, fr, pc | ct)
            if t1 and t2:
                return True
            if t1:
                env.clear(); env.update(e2); return False
            if t2:
                env.clear(); env.update(e1); return False
            for k in set(e1) | set(e2):
                a, b = e1.get(k), e2.get(k)
                j = join(a, b)
                env[k] = add(j, ct) if (a is not b and j is not None) else j
            return False
        if isinstance(st, ast.For):
            it = self.ev(st.iter, env, pc, fi)
            el, ot = self.iterate(it, fi, st.iter)
            # lists that start empty and get exactly one element per iteration (an unconditional append at the top level
            # of the body) are the loop written out of a comprehension: aligned with the iterated sequence
            one_per_iter = {}
            for b_ in st.body:
                if isinstance(b_, ast.Expr) and isinstance(b_.value, ast.Call) and isinstance(b_.value.func, ast.Attribute) and b_.value.func.attr == "append" \
                        and isinstance(b_.value.func.value, ast.Name) and len(b_.value.args) == 1:
                    nm_ = b_.value.func.value.id
                    cur_ = env.get(nm_)
                    if cur_ is not None and cur_.kind == "seq" and isinstance(cur_.oid, tuple) and cur_.oid and cur_.oid[0] == "lit" and not tt(cur_):
                        one_per_iter[nm_] = one_per_iter.get(nm_, 0) + 1
            for nm_ in list(one_per_iter):
                others = [x for x in ast.walk(ast.Module(st.body, [])) if isinstance(x, ast.Call) and isinstance(x.func, ast.Attribute) and isinstance(x.func.value, ast.Name)
                          and x.func.value.id == nm_ and x.func.attr in ("append", "extend", "insert", "pop", "remove", "clear", "sort", "reverse")]
                rebinds = [x for x in ast.walk(ast.Module(st.body, [])) if isinstance(x, ast.Name) and x.id == nm_ and isinstance(x.ctx, ast.Store)]
                if one_per_iter[nm_] != 1 or len(others) != 1 or rebinds or any(isinstance(x, (ast.Break, ast.Continue, ast.Return)) for x in ast.walk(ast.Module(st.body, []))):
                    del one_per_iter[nm_]
            if not hasattr(self, "octx"):
                self.octx = []
            # loop variables that hold a node id: unique per pass
            uniq = set()
            if el is not None and el.kind == "node" and isinstance(st.target, ast.Name):
                uniq.add(st.target.id)
            elif el is not None and el.kind == "tuple" and el.items and isinstance(st.target, (ast.Tuple, ast.List)):
                for t_, x_ in zip(st.target.elts, el.items):
                    if isinstance(t_, ast.Name) and x_ is not None and x_.kind == "node":
                        uniq.add(t_.id)
            self.octx.append((frozenset(ot), self._carried_names(fi.node, st), frozenset(uniq)))
            try:
                for _ in range(3):
                    self.assign(st.target, el, env, pc, fi)
                    self.block(st.body, env, fr, pc)
            finally:
                self.octx.pop()
            for nm_ in one_per_iter:
                cur_ = env.get(nm_)
                if cur_ is not None and cur_.kind == "seq":
                    oid_ = ("iter", it.oid) if it.kind == "graph" else (("iter", it.x.oid) if it.kind == "nodeview" else it.oid)
                    env[nm_] = seq(cur_.elem, ot, oid_, cur_.t)
            # for x in d.values(): x.sort()   -- every element of the container is reordered in place
            if isinstance(st.target, ast.Name) and st.body and all(
                    isinstance(b_, ast.Expr) and isinstance(b_.value, ast.Call) and isinstance(b_.value.func, ast.Attribute) and b_.value.func.attr in ("sort", "reverse")
                    and isinstance(b_.value.func.value, ast.Name) and b_.value.func.value.id == st.target.id for b_ in st.body):
                itx = st.iter
                cname = None
                if isinstance(itx, ast.Call) and isinstance(itx.func, ast.Attribute) and itx.func.attr == "values" and isinstance(itx.func.value, ast.Name) and not itx.args:
                    cname = itx.func.value.id
                elif isinstance(itx, ast.Name):
                    cname = itx.id
                cont = env.get(cname) if cname else None
                newel = env.get(st.target.id)
                if cont is not None and newel is not None:
                    if cont.kind == "map":
                        env[cname] = V("map", cont.t, newel, cont.ot, cont.oid, x=cont.x)
                    elif cont.kind == "seq":
                        env[cname] = seq(newel, cont.ot, cont.oid, cont.t)
            self.block(st.orelse, env, fr, pc)
            return False
        if isinstance(st, ast.While):
            for _ in range(3):
                c = self.ev(st.test, env, pc, fi)
                self.block(st.body, env, fr, pc | size_t(c))
            return False
        if isinstance(st, ast.Assert):
            self.ev(st.test, env, pc, fi)
            return False
        if isinstance(st, (ast.Continue, ast.Break)):
            return True
        if isinstance(st, ast.Pass):
            return False
        if isinstance(st, ast.Raise):
            return True
        if isinstance(st, ast.With):
            for it in st.items:
                v = self.ev(it.context_expr, env, pc, fi)
                if it.optional_vars is not None:
                    self.assign(it.optional_vars, v, env, pc, fi)
            return self.block(st.body, env, fr, pc)
        if isinstance(st, ast.Delete):
            return False
        if isinstance(st, ast.Try):
            self.block(st.body, env, fr, pc)
            for h in st.handlers:
                self.block(h.body, env, fr, pc)
            self.block(st.orelse, env, fr, pc)
            self.block(st.finalbody, env, fr, pc)
            return False
        if isinstance(st, ast.FunctionDef):
            # a function defined here: a value that sees the variables of this function
            nested = fi.module.functions.get(f"{fi.qualname}.<locals>.{st.name}")
            if nested is not None:
                env[st.name] = V("func", x=("closure", nested, env))
            return False
        if isinstance(st, (ast.Import, ast.ImportFrom, ast.Global, ast.Nonlocal, ast.ClassDef)):
            return False
        if isinstance(st, ast.Match):
            from .model import desugar_match
            d = desugar_match(st)
            if d is not None:
                return self.stmt(d, env, fr, pc)
        raise AnalysisError(f"taint interpreter: statement {type(st).__name__} at {fi.loc(st)} not supported")

    def assign(self, tg, v, env, pc, fi):
        if isinstance(tg, ast.Name):
            o_ = self.oc_for(tg.id)
            env[tg.id] = add(v, o_) if o_ and v.kind in ("scalar", "const", "node") else v
        elif isinstance(tg, (ast.Tuple, ast.List)):
            if v.kind == "tuple" and len(v.items) == len(tg.elts):
                for e, i in zip(tg.elts, v.items):
                    self.assign(e, add(i, v.t), env, pc, fi)
            elif v.kind == "seq":
                for e in tg.elts:
                    self.assign(e, add(v.elem, v.ot | v.t), env, pc, fi)
            else:
                for e in tg.elts:
                    self.assign(e, sc(tt(v)), env, pc, fi)
        elif isinstance(tg, ast.Subscript):
            base = self.ev(tg.value, env, pc, fi)
            key = self.ev(tg.slice, env, pc, fi)
            self.store(tg.value, base, key, v, env, pc, fi, tg)
        elif isinstance(tg, ast.Starred):
            self.assign(tg.value, v, env, pc, fi)
        elif isinstance(tg, ast.Attribute):
            base = self.ev(tg.value, env, pc, fi)
            if base.kind == "inst":
                base.x[1][tg.attr] = join(base.x[1].get(tg.attr), v)
        else:
            raise AnalysisError(f"taint interpreter: assignment target {type(tg).__name__} at {fi.loc(tg)}")

    def store(self, base_expr, base, key, v, env, pc, fi, node):
        # d[k] = v : the association is tainted by the order-ish taint of k and by v; a node id used as key is fine
        kt = without(tt(key), LABEL)
        if base.kind == "map":
            # keyed by a node id (unique per atom): which value ends up under the key does not depend on the order
            # in which the atoms were visited; only the dictionary's own (insertion) order does
            vpc = E if key.kind == "node" else pc
            sel = self._selector_names(base_expr)
            nb = V("map", base.t, join(base.elem, add(v, kt | vpc)), base.ot | (pc if not sel else E) | self.oc(sel), base.oid, x=join(base.x, key) if isinstance(base.x, V) else key)
            self.rebind(base_expr, nb, env, fi)
        elif base.kind == "nodeattrs":            # m.nodes[a][KEY] = v
            g, keyname = base.x
            if isinstance(key.x, str) and key.kind == "const":
                keyname = key.x
            # written under the atom's own id: which atom gets which value does not depend on the order of the visit
            vpc = E if base.oid == "bynode" else pc
            t_ = tt(v) | kt | without(base.t, LABEL) | vpc
            g.x[keyname] = g.x.get(keyname, E) | t_
            if isinstance(keyname, str):
                self.sinks.append(Sink(f"node attribute `{keyname}`", fi, node, t_))
        elif base.kind == "attrdict":
            g = base.x
            keyname = key.x if key.kind == "const" else "?"
            g.x[keyname] = g.x.get(keyname, E) | tt(v) | kt | pc
        elif base.kind == "vs" and base.x.items is not None:
            # ig.vs[KEY] = values: one value per vertex, in vertex order.  The first sequence stored fixes what the vertex
            # order is (it is the caller's listing of the nodes); later ones are aligned with it iff they list the same way
            ig = base.x
            if key.kind != "const" or not isinstance(key.x, str):
                raise AnalysisError(f"taint interpreter: vertex attribute stored under a key that is not constant at {fi.loc(node)}")
            if v.kind != "seq":
                raise AnalysisError(f"taint interpreter: vertex attribute `{key.x}` is filled with something that is not a sequence at {fi.loc(node)}")
            if "__base__" not in ig.items:
                ig.items["__base__"] = v
                ig.oid, ig.ot = v.oid, frozenset(v.ot)
                ig.items[key.x] = v
            else:
                base_ = ig.items["__base__"]
                aligned = v.oid is not None and v.oid == base_.oid
                ig.items[key.x] = v if aligned else seq(add(v.elem, v.ot | base_.ot), v.ot, v.oid)
        elif base.kind == "seq":
            nb = seq(join(base.elem, add(v, kt)), base.ot | pc | kt | self.oc(), ("mut", base.oid))
            self.rebind(base_expr, nb, env, fi)
        elif base.kind in ("scalar", "const", "none", "bound", "func", "node"):
            self.notes.append(f"store into an untracked object ({base.kind}) at {fi.loc(node)}: shared-state writes are R-GLOBAL's / R-EFFECT's concern")
        else:
            raise AnalysisError(f"taint interpreter: store into {base.kind} at {fi.loc(node)}")

    def rebind(self, expr, v, env, fi):
        if isinstance(expr, ast.Name):
            env[expr.id] = v
        elif isinstance(expr, ast.Subscript):
            b = self.ev(expr.value, env, E, fi)
            if b.kind == "map":
                self.rebind(expr.value, V("map", b.t, join(b.elem, v), b.ot, b.oid, x=b.x), env, fi)
            elif b.kind == "seq":
                self.rebind(expr.value, seq(join(b.elem, v), b.ot, b.oid), env, fi)
            else:
                raise AnalysisError(f"taint interpreter: cannot rebind element of {b.kind}")
        elif isinstance(expr, ast.Attribute):
            pass
        elif isinstance(expr, ast.Call) and isinstance(expr.func, ast.Attribute) and expr.func.attr in ("setdefault", "get") and expr.args:
            # d.setdefault(k, []).append(x): the element stored under k changes
            b = self.ev(expr.func.value, env, E, fi)
            if b.kind == "map":
                self.rebind(expr.func.value, V("map", b.t, join(b.elem, v), b.ot, b.oid, x=b.x), env, fi)
            else:
                raise AnalysisError(f"taint interpreter: cannot rebind the result of .{expr.func.attr}() on {b.kind}")
        else:
            raise AnalysisError("taint interpreter: rebind target")

    def iterate(self, it: V, fi, node):
        """-> (element value, order taint of the iteration)"""
        k = it.kind
        if k == "seq":
            return add(it.elem, it.t), it.ot
        if k == "map":
            return (it.x if isinstance(it.x, V) else sc()), it.ot
        if k == "graph":
            return self.node(g=it), self.src(ORDER, fi, node, "iteration over the graph's nodes (insertion order)") | it.ot
        if k == "nodeview":
            return self.node(g=it.x), self.src(ORDER, fi, node, "iteration over m.nodes (insertion order)")
        if k == "edgeview":
            o = self.src(ORDER, fi, node, "m.edges: edge listing order and endpoint orientation")
            return add(tup([self.node(g=it.x), self.node(g=it.x)]), o), o
        if k == "nodedata":
            g, key = it.x
            return tup([self.node(g=g), sc(g.x.get(key, E))]), self.src(ORDER, fi, node, "m.nodes.data(..) (insertion order)")
        if k == "tuple":
            r = None
            for i in it.items:
                r = join(r, i)
            return add(r if r is not None else sc(), it.t), frozenset(it.t)
        if k in ("scalar", "const", "none", "node"):
            return sc(tt(it)), E
        if k == "attrdict":
            return sc(), self.src(ORDER, fi, node, "iteration over an attribute dict")
        raise AnalysisError(f"taint interpreter: iteration over {k} at {fi.loc(node)}")

    # ---- expressions
    def ev(self, e, env, pc, fi) -> V:
        m = getattr(self, "e_" + type(e).__name__, None)
        if m is None:
            raise AnalysisError(f"taint interpreter: expression {type(e).__name__} at {fi.loc(e)} not supported")
        return m(e, env, pc, fi)

    def e_Constant(self, e, env, pc, fi):
        return V("const", x=e.value)

    def e_Name(self, e, env, pc, fi):
        if e.id in env:
            return env[e.id]
        r = self.repo.resolve(fi.module, e.id)
        if r is not None:
            if r[0] == "const":
                try:
                    cv = self.repo.const(r[1], r[2])
                except NotConst:
                    return sc()
                if isinstance(cv, (set, frozenset)) and len(cv) >= 2 and any(isinstance(x, str) for x in cv):
                    el = None
                    for x in cv:
                        el = join(el, self.lift(x))
                    return V("seq", E, el, self.src(HASH, fi, e, f"`{e.id}` is a module-level set of strings (iteration order depends on the hash seed)"), ("set", id(e)))
                return self.lift(cv)
            if r[0] == "func":
                return V("func", x=("tucan", r[1]))
            if r[0] == "ext":
                return V("func", x=("ext", r[1]))
            if r[0] in ("extmod", "mod", "class", "builtin"):
                return V("func", x=r)
        if e.id in ("True", "False", "None"):
            return V("const", x={"True": True, "False": False, "None": None}[e.id])
        raise AnalysisError(f"taint interpreter: unbound name {e.id} at {fi.loc(e)}")

    def lift(self, v):
        if isinstance(v, dict):
            key = None
            el = None
            for k, x in v.items():
                key = join(key, self.lift(k))
                el = join(el, self.lift(x))
            m = mp(el, E, ("const", id(v)), key=key if key is not None else sc())
            return m
        if isinstance(v, (list, tuple)):
            if isinstance(v, tuple) and len(v) <= 6:
                return tup(self.lift(x) for x in v)
            el = None
            for x in v:
                el = join(el, self.lift(x))
            return seq(el, E, ("const", id(v)))
        return V("const", x=v)

    def e_Tuple(self, e, env, pc, fi):
        r = self._ordered_pair_idiom(e, env, pc, fi)
        if r is not None:
            return r
        items = []
        for x in e.elts:
            if isinstance(x, ast.Starred):
                v = self.ev(x.value, env, pc, fi)
                if v.kind == "tuple":
                    items.extend(add(i, v.t) for i in v.items)
                    continue
                # unknown length: the tuple is a sequence whose order is that of its parts
                r2 = None
                ot = set()
                for y in e.elts:
                    w = self.ev(y.value if isinstance(y, ast.Starred) else y, env, pc, fi)
                    if isinstance(y, ast.Starred) and w.kind == "seq":
                        r2 = join(r2, add(w.elem, w.t))
                        ot |= w.ot
                    else:
                        r2 = join(r2, w)
                return seq(r2, frozenset(ot), ("lit", id(e)))
            items.append(self.ev(x, env, pc, fi))
        return tup(items)

    def e_List(self, e, env, pc, fi):
        r = None
        for x in e.elts:
            v = self.ev(x.value if isinstance(x, ast.Starred) else x, env, pc, fi)
            r = join(r, v.elem if isinstance(x, ast.Starred) and v.kind == "seq" else v)
        return seq(r, pc if e.elts else E, ("lit", id(e)))

    def e_Set(self, e, env, pc, fi):
        r = None
        for x in e.elts:
            r = join(r, self.ev(x, env, pc, fi))
        return seq(r, self.src(HASH, fi, e, "set literal (iteration order depends on hashing)"), ("set", id(e)))

    def e_Dict(self, e, env, pc, fi):
        r = None
        k = None
        for kk, x in zip(e.keys, e.values):
            r = join(r, self.ev(x, env, pc, fi))
            if kk is not None:
                k = join(k, self.ev(kk, env, pc, fi))
        return mp(r, E, ("dict", id(e)), key=k)

    def e_JoinedStr(self, e, env, pc, fi):
        t = set()
        for p in e.values:
            if isinstance(p, ast.FormattedValue):
                t |= tt(self.ev(p.value, env, pc, fi))
        return sc(t)

    def e_FormattedValue(self, e, env, pc, fi):
        return sc(tt(self.ev(e.value, env, pc, fi)))

    def e_BinOp(self, e, env, pc, fi):
        a, b = self.ev(e.left, env, pc, fi), self.ev(e.right, env, pc, fi)
        if isinstance(e.op, (ast.BitAnd, ast.BitOr, ast.BitXor)) or (isinstance(e.op, ast.Sub) and a.kind in ("seq", "map") and b.kind in ("seq", "map")):
            if a.kind in ("seq", "map") or b.kind in ("seq", "map"):
                # set algebra on key views / sets: the result is a set
                def el(v):
                    return (v.x if v.kind == "map" and isinstance(v.x, V) else v.elem) if v.kind in ("seq", "map") else sc(tt(v))
                return V("seq", E, join(el(a), el(b)), self.src(HASH, fi, e, "set operation on key views (result is a set: iteration order depends on hashing)"), ("set", id(e)))
        if isinstance(e.op, ast.Add) and a.kind == "seq" and b.kind == "seq":
            return seq(join(a.elem, b.elem), a.ot | b.ot, ("cat", a.oid, b.oid))
        if isinstance(e.op, ast.Add) and a.kind == "tuple" and b.kind == "tuple":
            return tup(a.items + b.items)
        if isinstance(e.op, ast.Add) and a.kind == "tuple" and b.kind == "seq":
            r = b.elem
            for i in a.items:
                r = join(r, i)
            return seq(r, b.ot, ("cat", id(e), b.oid))
        return sc(tt(a) | tt(b))

    def e_UnaryOp(self, e, env, pc, fi):
        v = self.ev(e.operand, env, pc, fi)
        return sc(size_t(v) if isinstance(e.op, ast.Not) else tt(v))

    def e_BoolOp(self, e, env, pc, fi):
        r = None
        for x in e.values:
            r = join(r, self.ev(x, env, pc, fi))
        return r

    def e_Compare(self, e, env, pc, fi):
        left = self.ev(e.left, env, pc, fi)
        t = set(tt(left))
        for c, op in zip(e.comparators, e.ops):
            v = self.ev(c, env, pc, fi)
            if isinstance(op, (ast.In, ast.NotIn)):
                # membership does not depend on the container's order; a node id as the probed key is a lookup, not a comparison
                t |= vt(v)
                if left.kind == "node":
                    t -= only(left.t, LABEL)
            elif isinstance(op, (ast.Eq, ast.NotEq)) and v.kind == "edgeview" and left.kind == "edgeview":
                t |= set()          # edge *sets* compare order-insensitively
            else:
                t |= tt(v)
        return sc(t)

    @staticmethod
    def _strip_orientation(x: V, y: V):
        """two endpoints of one edge put into value order: what they shared only because of the edge's stored orientation
        no longer applies"""
        common = frozenset(t for t in (x.t & y.t) if t[0] == ORDER and "orientation" in t[1])
        if not common:
            return x, y
        return (V(x.kind, x.t - common, x.elem, x.ot, x.oid, x.items, x.x), V(y.kind, y.t - common, y.elem, y.ot, y.oid, y.items, y.x))

    def _ordered_pair_idiom(self, e, env, pc, fi):
        """(b, a) if b < a else (a, b)   /   (min(a, b), max(a, b)): the pair in value order"""
        if isinstance(e, ast.IfExp) and isinstance(e.test, ast.Compare) and len(e.test.ops) == 1 and isinstance(e.test.ops[0], (ast.Lt, ast.LtE, ast.Gt, ast.GtE)) \
                and isinstance(e.test.left, ast.Name) and isinstance(e.test.comparators[0], ast.Name) \
                and isinstance(e.body, ast.Tuple) and isinstance(e.orelse, ast.Tuple) and len(e.body.elts) == 2 and len(e.orelse.elts) == 2:
            l, r = e.test.left.id, e.test.comparators[0].id
            b = [x.id if isinstance(x, ast.Name) else None for x in e.body.elts]
            o = [x.id if isinstance(x, ast.Name) else None for x in e.orelse.elts]
            lt = isinstance(e.test.ops[0], (ast.Lt, ast.LtE))
            asc = (b == [l, r] and o == [r, l]) if lt else (b == [r, l] and o == [l, r])
            desc = (b == [r, l] and o == [l, r]) if lt else (b == [l, r] and o == [r, l])
            if (asc or desc) and l != r and l in env and r in env:
                x, y = self._strip_orientation(env[l], env[r])
                j = join(x, y)
                return tup([j, j])
        if isinstance(e, ast.IfExp) and isinstance(e.test, ast.Compare) and len(e.test.ops) == 1 and isinstance(e.test.ops[0], (ast.Lt, ast.LtE, ast.Gt, ast.GtE)) \
                and isinstance(e.test.left, ast.Name) and isinstance(e.test.comparators[0], ast.Name) \
                and isinstance(e.body, ast.Call) and isinstance(e.orelse, ast.Call) and norm(e.body.func) == norm(e.orelse.func) \
                and len(e.body.args) == 2 and len(e.orelse.args) == 2 and not e.body.keywords and not e.orelse.keywords:
            # f(b, a) if b < a else f(a, b): the callee always receives the pair in value order
            l, r = e.test.left.id, e.test.comparators[0].id
            b = [x.id if isinstance(x, ast.Name) else None for x in e.body.args]
            o = [x.id if isinstance(x, ast.Name) else None for x in e.orelse.args]
            if {tuple(b), tuple(o)} == {(l, r), (r, l)} and l != r and l in env and r in env:
                x, y = self._strip_orientation(env[l], env[r])
                j = join(x, y)
                env2 = dict(env)
                env2[l], env2[r] = j, j
                return self.ev(e.body, env2, pc, fi)
        if isinstance(e, ast.Tuple) and len(e.elts) == 2 and all(isinstance(x, ast.Call) and isinstance(x.func, ast.Name) and x.func.id in ("min", "max") and len(x.args) == 2
                                                                  and not x.keywords and all(isinstance(a, ast.Name) for a in x.args) for x in e.elts):
            f0, f1 = e.elts[0].func.id, e.elts[1].func.id
            n0, n1 = [a.id for a in e.elts[0].args], [a.id for a in e.elts[1].args]
            if {f0, f1} == {"min", "max"} and set(n0) == set(n1) and len(set(n0)) == 2 and all(n in env for n in n0):
                x, y = self._strip_orientation(env[n0[0]], env[n0[1]])
                j = join(x, y)
                return tup([j, j])
        return None

    def e_IfExp(self, e, env, pc, fi):
        r = self._ordered_pair_idiom(e, env, pc, fi)
        if r is not None:
            return r
        c = self.ev(e.test, env, pc, fi)
        return add(join(self.ev(e.body, env, pc, fi), self.ev(e.orelse, env, pc, fi)), size_t(c))

    def e_NamedExpr(self, e, env, pc, fi):
        v = self.ev(e.value, env, pc, fi)
        env[e.target.id] = v
        return v

    def e_Starred(self, e, env, pc, fi):
        return self.ev(e.value, env, pc, fi)

    def e_Lambda(self, e, env, pc, fi):
        return V("func", x=("lambda", e, dict(env)))

    def e_Slice(self, e, env, pc, fi):
        return sc()

    def _comp(self, e, env, pc, fi, mk):
        env2 = dict(env)
        ot = set()
        oid = None
        filtered = False
        member_t: set = set()
        for i, g in enumerate(e.generators):
            it = self.ev(g.iter, env2, pc, fi)
            el, o = self.iterate(it, fi, g.iter)
            ot |= o
            if i == 0 and len(e.generators) == 1:
                oid = ("iter", it.oid) if it.kind in ("graph",) else (("iter", it.x.oid) if it.kind == "nodeview" else it.oid)
            else:
                oid = ("nest", id(e))
            self.assign(g.target, el, env2, pc, fi)
            for c in g.ifs:
                cv = self.ev(c, env2, pc, fi)
                member_t |= size_t(cv)    # filtering keeps the relative order; which elements stay depends on the test
                filtered = True
        if filtered:
            oid = ("filter", oid, id(e))
        out = mk(env2, frozenset(ot), oid)
        return add(out, member_t) if member_t else out

    def e_ListComp(self, e, env, pc, fi):
        return self._comp(e, env, pc, fi, lambda env2, ot, oid: seq(self.ev(e.elt, env2, pc, fi), ot, oid))

    e_GeneratorExp = e_ListComp

    def e_SetComp(self, e, env, pc, fi):
        return self._comp(e, env, pc, fi, lambda env2, ot, oid: seq(self.ev(e.elt, env2, pc, fi),
                                                                    self.src(HASH, fi, e, "set comprehension (iteration order depends on hashing)"), ("set", id(e))))

    def e_DictComp(self, e, env, pc, fi):
        def mk(env2, ot, oid):
            k = self.ev(e.key, env2, pc, fi)
            v = self.ev(e.value, env2, pc, fi)
            return mp(add(v, without(tt(k), LABEL)), ot, oid, key=k)
        out = self._comp(e, env, pc, fi, mk)
        # {x: i for i, x in enumerate(xs)}: every key gets a number of its own (a ranking)
        if len(e.generators) == 1 and not e.generators[0].ifs:
            g = e.generators[0]
            if isinstance(g.iter, ast.Call) and isinstance(g.iter.func, ast.Name) and g.iter.func.id == "enumerate" and isinstance(g.target, ast.Tuple) and len(g.target.elts) == 2 \
                    and all(isinstance(t_, ast.Name) for t_ in g.target.elts) and isinstance(e.key, ast.Name) and isinstance(e.value, ast.Name) \
                    and e.key.id == g.target.elts[1].id and e.value.id == g.target.elts[0].id and out.kind == "map":
                out = V("map", out.t, out.elem, out.ot, ("rank", out.oid), x=out.x)
        return out

    def _rank_key(self, fv: V) -> bool:
        """key=lambda p: RANK[p] / RANK[p[0]] with RANK a ranking of the elements: no two elements share a key"""
        if fv.kind != "func" or fv.x[0] != "lambda":
            return False
        lam, cenv = fv.x[1], fv.x[2]
        if len(lam.args.args) != 1:
            return False
        p_ = lam.args.args[0].arg
        b = lam.body
        if isinstance(b, ast.Subscript) and isinstance(b.value, ast.Name) and b.value.id in cenv:
            m_ = cenv[b.value.id]
            arg_ok = (isinstance(b.slice, ast.Name) and b.slice.id == p_) or \
                (isinstance(b.slice, ast.Subscript) and isinstance(b.slice.value, ast.Name) and b.slice.value.id == p_ and isinstance(b.slice.slice, ast.Constant) and b.slice.slice.value == 0)
            return arg_ok and m_.kind == "map" and isinstance(m_.oid, tuple) and m_.oid[:1] == ("rank",)
        return False

    def e_Subscript(self, e, env, pc, fi):
        b = self.ev(e.value, env, pc, fi)
        if isinstance(e.slice, ast.Slice):
            if b.kind == "seq":
                return seq(b.elem, b.ot, ("slice", b.oid, norm(e.slice)), b.t)
            return b
        k = self.ev(e.slice, env, pc, fi)
        kt = without(tt(k), LABEL)
        if b.kind == "nodeview":            # m.nodes[a]
            return V("nodeattrs", kt, x=(b.x, None), oid="bynode" if k.kind == "node" else None)
        if b.kind == "nodeattrs" and b.x[1] is None:
            key = k.x if k.kind == "const" else "?"
            g = b.x[0]
            return sc(b.t | g.x.get(key, E) | (frozenset().union(*g.x.values()) if key == "?" and g.x else E))
        if b.kind == "nodedata":            # m.nodes.data(K)[a]
            g, key = b.x
            return sc(kt | g.x.get(key, E))
        if b.kind == "map" and isinstance(b.oid, tuple) and b.oid[:1] == ("rank",) and k.kind == "node":
            # the position of a node in the sequence the ranking was made from: an index into anything aligned with it
            return V("igidx", without(tt(b.elem), ORDER) | without(kt, ORDER) | frozenset(t for t in kt if t[0] == ORDER and "orientation" in t[1]), x=b.oid[1])
        if b.kind == "map":
            return add(b.elem, kt)
        if b.kind == "seq":
            if k.kind == "igidx" and k.x is not None and k.x == b.oid:
                return add(b.elem, b.t | k.t)      # vertex id used on a sequence aligned with the vertex order: a lookup
            # positional index: depends on the sequence's order
            return add(b.elem, b.ot | kt | b.t)
        if b.kind == "tuple":
            if k.kind == "const" and isinstance(k.x, int) and -len(b.items) <= k.x < len(b.items):
                return add(b.items[k.x], b.t)
            r = None
            for i in b.items:
                r = join(r, i)
            return add(r, kt | b.t)
        if b.kind in ("scalar", "node", "const", "none"):
            return sc(tt(b) | kt)
        if b.kind == "attrdict":
            g = b.x
            key = k.x if k.kind == "const" else "?"
            return sc(kt | g.x.get(key, E) | b.t)
        if b.kind == "vs" and b.x.items is not None:        # attribute of an igraph object that was assembled by hand
            ig = b.x
            key = k.x if k.kind == "const" else "?"
            st_ = ig.items.get(key)
            if st_ is None:
                raise AnalysisError(f"taint interpreter: vertex attribute `{key}` is read at {fi.loc(e)} but was never stored on this igraph object")
            return seq(st_.elem, ig.ot, ig.oid)
        if b.kind == "vs":                  # igraph vertex-sequence attribute
            ig = b.x
            g = ig.x
            key = k.x if k.kind == "const" else "?"
            order = ig.ot
            oid = ("iter", g.oid) if not ig.t and ig.oid is None else ig.oid
            if key == "_nx_name":
                return seq(self.node(g=g), order, oid)
            return seq(sc(g.x.get(key, E)), order, oid)
        if b.kind == "edgeview":            # m.edges[u, v]: the data dict of one bond
            return V("edgedata", kt, x=b.x)
        if b.kind == "edgedata":
            return sc(b.t | kt)
        if b.kind == "graph":               # m[a] adjacency
            return seq(self.node(g=b), self.src(ORDER, fi, e, "m[a]: neighbour listing order"), ("adj", id(e)))
        if b.kind in ("bound", "func"):
            # e.g. m.graph[...] (graph-level data) or an attribute of an untracked object: an influence this analysis has no summary for
            return add(sc(kt), self.src(UNSUM, fi, e, f"subscript of {norm(e.value)}"))
        raise AnalysisError(f"taint interpreter: subscript on {b.kind} at {fi.loc(e)}")

    def e_Attribute(self, e, env, pc, fi):
        if isinstance(e.value, (ast.Name, ast.Attribute)) and not (isinstance(e.value, ast.Name) and e.value.id in env):
            r = self.repo.resolve_dotted(fi.module, e)
            if r is not None:
                if r[0] == "const":
                    try:
                        return self.lift(self.repo.const(r[1], r[2]))
                    except NotConst:
                        return sc()
                if r[0] == "func":
                    return V("func", x=("tucan", r[1]))
                if r[0] == "ext":
                    return V("func", x=("ext", r[1]))
        b = self.ev(e.value, env, pc, fi)
        if b.kind == "graph":
            if e.attr == "nodes":
                return V("nodeview", x=b)
            if e.attr == "edges":
                return V("edgeview", E, x=b)
            if e.attr in ("adj", "_adj"):
                return b
        if b.kind == "igraph" and e.attr == "vs":
            return V("vs", x=b)
        if b.kind == "inst":
            if e.attr in b.x[1]:
                return add(b.x[1][e.attr], b.t)
            m = self.repo.mro_method(b.x[0], e.attr)
            if m is not None and any(norm(d).split(".")[-1] in ("property", "cached_property") for d in m.node.decorator_list):
                return self.call_fn(m, [b], {}, pc)
        return V("bound", x=(b, e.attr))

    # ---- calls
    def e_Call(self, e, env, pc, fi):
        f = e.func
        args = [self.ev(a, env, pc, fi) for a in e.args]
        kw = {k.arg: self.ev(k.value, env, pc, fi) for k in e.keywords if k.arg}
        if isinstance(f, ast.Name):
            if f.id in env:
                fv = env[f.id]
                return self.call_value(fv, args, kw, e, env, pc, fi)
            r = self.repo.resolve(fi.module, f.id)
            if r is None:
                q = fi.qualname
                while True:
                    cand = f"{q}.<locals>.{f.id}"
                    if cand in fi.module.functions:
                        r = ("func", fi.module.functions[cand])
                        break
                    if ".<locals>." not in q:
                        break
                    q = q.rsplit(".<locals>.", 1)[0]
            if r is None:
                raise AnalysisError(f"taint interpreter: unknown callee {f.id} at {fi.loc(e)}")
            if r[0] == "func":
                return self.call_fn(r[1], args, kw, pc)
            if r[0] == "builtin":
                return self.builtin(r[1], args, kw, e, env, pc, fi)
            if r[0] == "ext":
                return self.lib(r[1], args, kw, e, pc, fi)
            if r[0] == "class":
                return self.construct(r[1], args, kw, pc, e, fi)
        if isinstance(f, ast.Attribute):
            if isinstance(f.value, (ast.Name, ast.Attribute)) and not (isinstance(f.value, ast.Name) and f.value.id in env):
                r = self.repo.resolve_dotted(fi.module, f)
                if r is not None:
                    if r[0] == "func":
                        if r[1].cls is not None and any(norm(d).split(".")[-1] == "classmethod" for d in r[1].node.decorator_list):
                            return self.call_fn(r[1], [V("class", x=r[1].cls)] + args, kw, pc)
                        return self.call_fn(r[1], args, kw, pc)
                    if r[0] == "ext":
                        return self.lib(r[1], args, kw, e, pc, fi)
                    if r[0] == "class":
                        return self.construct(r[1], args, kw, pc, e, fi)
                if isinstance(f.value, ast.Name) and f.value.id == "dict" and f.attr == "fromkeys":
                    return self.builtin("dict.fromkeys", args, kw, e, env, pc, fi)
            recv = self.ev(f.value, env, pc, fi)
            return self.method(f, recv, f.attr, args, kw, e, env, pc, fi)
        fv = self.ev(f, env, pc, fi)
        return self.call_value(fv, args, kw, e, env, pc, fi)

    def construct(self, ci, args, kw, pc, e, fi):
        """an instance of a tucan class: fields set by __init__ (self.x = ...) or, for a dataclass / NamedTuple, by position"""
        inst = V("inst", x=(ci, {}))
        init = self.repo.mro_method(ci, "__init__")
        if init is not None:
            self.call_fn(init, [inst] + list(args), kw, pc)
            return inst
        names = [st.target.id for st in ci.node.body if isinstance(st, ast.AnnAssign) and isinstance(st.target, ast.Name)]
        if not names and (args or kw):
            return sc(frozenset().union(*[tt(a) for a in args]) if args else E)
        for n_, a_ in zip(names, args):
            inst.x[1][n_] = a_
        for k_, a_ in kw.items():
            inst.x[1][k_] = a_
        return inst

    def call_value(self, fv: V, args, kw, e, env, pc, fi):
        if fv.kind == "class":
            return self.construct(fv.x, args, kw, pc, e, fi)
        if fv.kind == "bound" and fv.x[0].kind == "inst":
            recv, name = fv.x
            m = self.repo.mro_method(recv.x[0], name)
            if m is not None:
                return self.call_fn(m, [recv] + list(args), kw, pc)
        if fv.kind == "func":
            x = fv.x
            if x[0] == "tucan":
                return self.call_fn(x[1], args, kw, pc)
            if x[0] == "closure":
                return self.call_fn(x[1], args, kw, pc, closure_env=x[2])
            if x[0] == "getter":
                # itemgetter(k)(obj) / attrgetter(name)(obj): a keyed look-up into the argument
                obj = args[0] if args else sc()
                if obj.kind == "tuple" and len(x[2]) == 1 and x[2][0].kind == "const" and isinstance(x[2][0].x, int) and -len(obj.items) <= x[2][0].x < len(obj.items):
                    return obj.items[x[2][0].x]
                if obj.kind == "map":
                    return obj.elem if obj.elem is not None else sc()
                if obj.kind == "inst" and len(x[2]) == 1 and x[2][0].kind == "const" and x[2][0].x in obj.x[1]:
                    return obj.x[1][x[2][0].x]
                return sc(vt(obj))
            if x[0] == "partial":
                return self.call_value(x[1], list(x[2]) + list(args), {**x[3], **kw}, e, env, pc, fi)
            if x[0] == "ext":
                if x[1].startswith("operator."):
                    return sc(frozenset().union(*[tt(a) for a in args]) if args else E)
                return self.lib(x[1], args, kw, e, pc, fi)
            if x[0] == "lambda":
                lam, cenv = x[1], dict(x[2])
                for p, a in zip(lam.args.args, args):
                    cenv[p.arg] = a
                return self.ev(lam.body, cenv, pc, fi)
            if x[0] == "builtin":
                return self.builtin(x[1], args, kw, e, env, pc, fi)
        # a value called as a function (element of a tuple of operator functions, ...): result depends on the arguments
        return sc((frozenset().union(*[tt(a) for a in args]) if args else E) | tt(fv))

    def builtin(self, name, a, kw, e, env, pc, fi):
        allt = frozenset().union(*[tt(x) for x in a]) if a else E
        if name == "sorted":
            return self.sorted_summary(a, kw, e, fi)
        if name in ("list", "tuple"):
            if not a:
                return seq(None, E, ("lit", id(e)))
            el, ot = self.iterate(a[0], fi, e)
            src = a[0]
            oid = ("iter", src.oid) if src.kind == "graph" else (("iter", src.x.oid) if src.kind == "nodeview" else (src.oid if src.kind == "seq" else ("list", id(e))))
            return seq(el, ot, oid)
        if name in ("set", "frozenset"):
            if not a:
                return seq(None, E, ("set", id(e)))
            el, ot = self.iterate(a[0], fi, e)
            return V("seq", E, el, self.src(HASH, fi, e, f"{name}(..): iteration order depends on hashing"), ("set", id(e)))
        if name in ("len", "bool"):
            r = E
            for x in a:
                r |= size_t(x)
            return sc(r)
        if name in ("max", "min", "sum", "any", "all", "abs", "hash"):
            # order-insensitive consumers: only the values matter
            r = E
            for x in a:
                if x.kind == "tuple" and len(a) == 1:
                    # the smaller / larger end of one edge: which end was stored first plays no part
                    r |= frozenset(t for t in vt(x) if not (t[0] == ORDER and "orientation" in t[1]))
                    continue
                r |= vt(x)
            if name in ("max", "min") and "key" in kw:
                r |= allt      # ties under a key function are broken by position
            return sc(r)
        if name == "range":
            return seq(sc(allt), E, ("range", norm(e)))
        if name == "dict.fromkeys":
            el, ot = self.iterate(a[0], fi, e)
            return mp(a[1] if len(a) > 1 else sc(), ot, a[0].oid, key=el)
        if name in ("int", "str", "float", "repr", "round", "chr", "ord", "format"):
            return sc(allt)
        if name == "zip":
            return self.zip_summary(a, e, fi)
        if name == "dict":
            if not a:
                return mp(None, E, ("dict", id(e)))
            src = a[0]
            if src.kind == "map":
                return mp(src.elem, src.ot, src.oid, key=src.x)
            el, ot = self.iterate(src, fi, e)
            if el.kind == "tuple" and len(el.items) == 2:
                k, v = el.items
                return mp(add(v, without(tt(k), LABEL) | el.t), ot, src.oid, key=k)
            return mp(sc(tt(el)), ot, src.oid)
        if name == "enumerate":
            el, ot = self.iterate(a[0], fi, e)
            # positional numbering: the number attached to an element depends on the order
            src_ = a[0]
            oid_ = ("iter", src_.oid) if src_.kind == "graph" else (("iter", src_.x.oid) if src_.kind == "nodeview" else src_.oid)
            return seq(tup([sc(ot), el]), ot, oid_)
        if name == "reversed":
            el, ot = self.iterate(a[0], fi, e)
            return seq(el, ot, ("rev", a[0].oid))
        if name in ("isinstance", "callable", "hasattr", "print", "id", "type"):
            return sc()
        if name == "next":
            el, ot = self.iterate(a[0], fi, e)
            return add(el, ot)
        if name == "iter":
            return a[0]
        if name in ("map", "filter"):
            el, ot = self.iterate(a[1], fi, e)
            if name == "filter":
                return seq(el, ot, ("filter", a[1].oid, id(e)))
            return seq(self.call_value(a[0], [el], {}, e, env, pc, fi), ot, a[1].oid)
        return add(sc(allt), self.src(UNSUM, fi, e, f"builtin {name}"))

    @staticmethod
    def _injective_key(fv: V) -> bool:
        """can two different elements get the same sort key?  Decided for key functions of one parameter p whose every
        return value is a tuple that contains p itself, or a tuple starting with a constant that no other path uses while
        the path is taken for one value of p only (guard `p == CONST`)."""
        if fv.kind != "func":
            return False
        x = fv.x
        if x[0] == "lambda":
            lam = x[1]
            if len(lam.args.args) != 1:
                return False
            p_, paths = lam.args.args[0].arg, []

            def split(expr, guards):
                if isinstance(expr, ast.IfExp):
                    split(expr.body, guards + [(expr.test, True)])
                    split(expr.orelse, guards + [(expr.test, False)])
                else:
                    paths.append((guards, expr))
            split(lam.body, [])
        elif x[0] in ("closure", "tucan"):
            fn = x[1].node
            ps = [a_.arg for a_ in fn.args.args]
            if len(ps) != 1:
                return False
            p_, paths = ps[0], []

            def walk(stmts, guards):
                """True if every path through stmts ends in a return"""
                for i, st in enumerate(stmts):
                    if isinstance(st, ast.Return):
                        if st.value is None:
                            return None
                        paths.append((guards, st.value))
                        return True
                    if isinstance(st, ast.If):
                        t1 = walk(st.body, guards + [(st.test, True)])
                        t2 = walk(st.orelse, guards + [(st.test, False)]) if st.orelse else False
                        if t1 is None or t2 is None:
                            return None
                        if t1 and t2:
                            return True
                        if t1 and not st.orelse:
                            guards = guards + [(st.test, False)]
                            continue
                        return None
                    if isinstance(st, ast.Expr) and isinstance(st.value, ast.Constant):
                        continue
                    return None
                return False
            if walk(fn.body, []) is not True:
                return False
        else:
            return False
        leads = []
        for guards, expr in paths:
            if not isinstance(expr, ast.Tuple) or not expr.elts:
                return False
            has_p = any(isinstance(z, ast.Name) and z.id == p_ for z in expr.elts)
            if has_p and len(paths) == 1:
                return True
            lead = expr.elts[0]
            if not isinstance(lead, ast.Constant):
                return False
            pinned = any(pol and any(isinstance(c, ast.Compare) and len(c.ops) == 1 and isinstance(c.ops[0], ast.Eq) and isinstance(c.left, ast.Name) and c.left.id == p_
                                     and isinstance(c.comparators[0], ast.Constant) for c in ast.walk(t)) and not any(isinstance(b, ast.BoolOp) and isinstance(b.op, ast.Or) for b in ast.walk(t))
                         for t, pol in guards)
            if not (has_p or pinned):
                return False
            leads.append(lead.value)
        return len(set(map(repr, leads))) == len(leads)

    def sorted_summary(self, a, kw, e, fi):
        src = a[0]
        key = kw.get("key")
        if key is not None and key.kind in ("const", "none") and getattr(key, "x", None) is None:
            key = None              # sorted(xs, key=None) is sorted(xs)
        if src.kind == "edgeview":
            o = self.src(ORDER, fi, e, "m.edges: endpoint orientation")
            el = add(tup([self.node(g=src.x), self.node(g=src.x)]), o)
            old_ot = o
        elif src.kind == "tuple":
            # sorted(edge): a pair whose orientation is tainted becomes a clean ordered pair; its order is decided by the values
            base = without(src.t, ORDER)
            el = None
            items_ = list(src.items)
            if len(items_) == 2:
                items_ = list(self._strip_orientation(items_[0], items_[1]))
            for i in items_:
                el = join(el, i)
            el = add(el if el is not None else sc(), base)
            return seq(el, vt(el) | base, ("sorted", id(e)))
        else:
            el, old_ot = self.iterate(src, fi, e)
        if key is not None and el is not None and el.kind == "tuple" and len(el.items) == 2 and isinstance(src.oid, tuple) and src.oid and src.oid[0] in ("dict", "counter") \
                and el.items[0].kind in ("scalar", "const", "node"):
            # (key, value) pairs of a dictionary: the dictionary's keys are pairwise different.  The key part is marked, so that
            # a sort key that contains it is seen to tell any two pairs apart.
            k0 = el.items[0]
            mark = ("uniquekey", id(e))
            el = V("tuple", el.t, items=[V(k0.kind, k0.t, k0.elem, k0.ot, mark, k0.items, k0.x), el.items[1]])
        if key is not None and src.kind == "map" and el is not None and el.kind in ("scalar", "const"):
            # the keys of a dictionary, visited by iterating it: pairwise different as well
            el = V(el.kind, el.t, el.elem, el.ot, ("uniquekey", id(e)), el.items, el.x)
        if key is not None:
            # order = key values; ties keep the input order (stable sort)
            kv = self.call_value(key, [el], {}, e, {}, E, fi)
            if any(getattr(i, "oid", None) == ("uniquekey", id(e)) for i in ([kv] + list(kv.items or []))):
                return seq(el, tt(kv), ("sorted", id(e)))
            if self._injective_key(key) or self._rank_key(key):
                # different elements never share a key: the result is ordered by the key values alone
                return seq(el, tt(kv), ("sorted", id(e)))
            el_has_node = el.kind == "node" or (el.kind == "tuple" and any(i.kind == "node" for i in el.items))
            if el_has_node and (kv.kind == "node" or (kv.kind == "tuple" and any(i.kind == "node" for i in kv.items))):
                # the key ends in the element itself (a node label, unique): no two keys are equal, the input order plays no part
                return seq(el, tt(kv), ("sorted", id(e)))
            return seq(el, tt(kv) | old_ot, ("sortedkey", id(e)))
        # order after sorting is decided by the values alone (equal values are interchangeable)
        return seq(el, vt(el), ("sorted", id(e)))

    def zip_summary(self, a, e, fi):
        if len(a) == 1 and isinstance(e.args[0], ast.Starred):
            # zip(*seq_of_tuples): transposition keeps the alignment
            src = a[0]
            if src.kind == "seq" and src.elem is not None and src.elem.kind == "tuple":
                return tup(seq(add(it, src.elem.t), src.ot, src.oid) for it in src.elem.items)
            return tup([seq(src.elem, src.ot, src.oid), seq(src.elem, src.ot, src.oid)])
        els, ot, oids = [], set(), set()
        for x in a:
            el, o = self.iterate(x, fi, e)
            els.append(el)
            ot |= o
            if x.kind == "graph":
                oids.add(("iter", x.oid))
            elif x.kind == "nodeview":
                oids.add(("iter", x.x.oid))
            elif x.kind == "seq" and x.oid is not None and x.oid[0] == "range":
                oids.add("range")       # 0..n-1 is aligned with nothing: positional numbering
            else:
                oids.add(x.oid)
        plain = oids - {"range"}
        if len(plain) > 1 or None in plain:
            assoc = frozenset(ot)           # misaligned pairing: the association inherits every order taint
        elif "range" in oids and plain:
            assoc = frozenset(ot)           # numbering by position: depends on the order of the other sequence
        else:
            assoc = E
        return seq(tup(add(el, assoc) for el in els), frozenset(ot), next(iter(plain)) if len(plain) == 1 else ("zip", id(e)))

    def lib(self, q, a, kw, e, pc, fi):
        allt = frozenset().union(*[tt(x) for x in a]) if a else E
        if q == "networkx.set_node_attributes":
            g, vals = a[0], a[1]
            key = a[2] if len(a) > 2 else kw.get("name")
            if key is not None and key.kind == "const":
                t = vt(vals.elem) if vals.kind == "map" else tt(vals)
                if vals.kind == "map" and isinstance(vals.x, V):
                    t |= without(vt(vals.x), LABEL)
                t |= pc
                if g.kind == "graph":
                    g.x[key.x] = frozenset(t) if vals.kind != "map" or True else g.x.get(key.x, E) | t
                self.sinks.append(Sink(f"node attribute `{key.x}`", fi, e, t))
            elif vals.kind == "map" and g.kind == "graph":
                # dict of dicts: every key may be written
                t = vt(vals.elem)
                for k in list(g.x) + ["?"]:
                    g.x[k] = g.x.get(k, E) | t
            return V("none")
        if q == "networkx.get_node_attributes":
            g, key = a[0], a[1]
            if g.kind != "graph":
                return mp(sc(allt), E, None)
            return mp(sc(g.x.get(key.x, E) if key.kind == "const" else allt), self.src(ORDER, fi, e, "get_node_attributes (insertion order)"), ("iter", g.oid), key=self.node(g=g))
        if q == "networkx.relabel_nodes":
            g, m = a[0], a[1]
            t = (vt(m.elem) if m.kind == "map" else tt(m))
            self.sinks.append(Sink("new labels of relabel_nodes", fi, e, t))
            if g.kind != "graph":
                return self.graph(t=t)
            attrs = dict(g.x)
            if self.label_ctx and not kinds(t) & {LABEL, ORDER, HASH}:
                attrs["__canonical__"] = frozenset({("OK", "relabelled with clean labels")})
            return V("graph", without(g.t, LABEL) | t, oid=g.oid, x=attrs)
        if q == "networkx.convert_node_labels_to_integers":
            g = a[0]
            return V("graph", g.t | self.src(ORDER, fi, e, "convert_node_labels_to_integers numbers nodes in insertion order"), oid=g.oid, x=dict(g.x)) if g.kind == "graph" else self.graph()
        if q == "igraph.Graph.from_networkx":
            g = a[0]
            return V("igraph", x=g, ot=self.src(ORDER, fi, e, "igraph vertex order = node insertion order"), oid=("iter", g.oid) if g.kind == "graph" else None)
        if q == "igraph.Graph":
            # an igraph object assembled by hand: vertex ids are positions 0..n-1; which node sits at which position is what
            # the caller stores in the vertex attributes (that the edges are given in the same positions is R-BLISS's clause)
            ig = V("igraph", x=self.graph(), ot=self.src(ORDER, fi, e, "igraph vertex ids = positions chosen by the caller"), oid=None, items={})
            return ig
        if q in ("networkx.connected_components", "networkx.algorithms.components.connected_components") and a and a[0].kind == "graph":
            # yields one set of nodes per component; components come in the order in which their first node is listed
            g = a[0]
            comp = seq(self.node(g=g), self.src(HASH, fi, e, "a component is a set of nodes (iteration order depends on hashing / insertion)"), ("set", id(e)))
            return seq(comp, self.src(ORDER, fi, e, "connected_components: components are found in node listing order") | g.ot, ("cc", id(e)))
        if q in ("networkx.number_connected_components", "networkx.is_connected", "networkx.number_of_nodes", "networkx.number_of_edges"):
            return sc()
        if q == "networkx.density":
            return sc()
        if q in ("collections.deque",):
            if not a:
                return seq(None, E, ("deque", id(e)))
            el, ot = self.iterate(a[0], fi, e)
            return seq(el, ot | pc, ("deque", id(e)))
        if q == "collections.defaultdict":
            # a table whose missing entries start as an empty list / set / dict / 0
            fac = a[0] if a else None
            kind_ = fac.x[1] if fac is not None and fac.kind == "func" and isinstance(fac.x, tuple) and len(fac.x) > 1 else None
            kind_ = kind_ if isinstance(kind_, str) else getattr(kind_, "name", None)
            if kind_ in ("list", "set", "frozenset", "deque", "collections.deque"):
                return mp(seq(None, E, ("lit", id(e))), E, ("dict", id(e)))
            if kind_ == "dict":
                return mp(mp(None, E, ("dict", id(e), "inner")), E, ("dict", id(e)))
            if kind_ in ("int", "float", "bool", "str"):
                return mp(sc(), E, ("dict", id(e)))
            raise AnalysisError(f"taint interpreter: defaultdict with a factory this analysis does not read at {fi.loc(e)}")
        if q == "itertools.groupby" and a:
            # runs of equal keys, in the order in which the input is visited
            el, ot = self.iterate(a[0], fi, e)
            return seq(tup([sc(tt(el)), seq(el, ot, ("group", id(e)))]), ot | pc, ("groupby", id(e)))
        if q == "collections.Counter":
            if not a:
                return mp(sc(), E, ("counter", id(e)))
            el, ot = self.iterate(a[0], fi, e)
            # counts do not depend on the order; the key order (first occurrence) does
            return mp(sc(vt(el)), ot, ("counter", id(e)), key=el)
        if q == "networkx.Graph":
            if a and a[0].kind == "graph":
                # nx.Graph(m): nodes, edges and their data are copied like m.copy() does
                return V("graph", a[0].t, oid=a[0].oid, x=dict(a[0].x))
            return self.graph()
        if q in ("itertools.chain", "itertools.chain.from_iterable"):
            # concatenation: the parts follow one another in argument order; inside a part its own order holds
            parts = a
            outer_ot = E
            if q.endswith("from_iterable") and a:
                inner, outer_ot = self.iterate(a[0], fi, e)
                parts = [inner]
            el, ot = None, set(outer_ot)
            for x in parts:
                ie, io = self.iterate(x, fi, e)
                el = join(el, ie)
                ot |= io
            return seq(el, frozenset(ot) | pc, ("chain", id(e)))
        if q == "itertools.count":
            return seq(sc(allt), E, ("count", norm(e)))
        if q in ("itertools.repeat",):
            return seq(a[0] if a else sc(), E, ("repeat", id(e)))
        if q in ("itertools.islice", "itertools.takewhile", "itertools.dropwhile", "itertools.filterfalse", "itertools.compress"):
            src = a[0] if q != "itertools.takewhile" and q != "itertools.dropwhile" and q != "itertools.filterfalse" else (a[1] if len(a) > 1 else a[0])
            el, ot = self.iterate(src, fi, e)
            out = seq(el, ot | (allt - tt(src)), ("slice", getattr(src, "oid", None), id(e)))
            if q in ("itertools.islice", "itertools.takewhile", "itertools.dropwhile"):
                # which elements are kept depends on the order in which the source lists them: that does not go away by
                # sorting the result
                out = add(out, ot)
            return out
        if q == "itertools.pairwise":
            el, ot = self.iterate(a[0], fi, e)
            return seq(tup([el, el]), ot, ("pairwise", id(e)))
        if q in ("itertools.zip_longest",):
            return self.zip_summary(a, e, fi)
        if q == "itertools.accumulate":
            el, ot = self.iterate(a[0], fi, e)
            return seq(add(el, ot), ot, ("accumulate", id(e)))
        if q in ("itertools.product", "itertools.permutations", "itertools.combinations"):
            el, ot = None, set()
            for x in a:
                if x.kind in ("seq", "map", "graph", "nodeview", "tuple"):
                    ie, io = self.iterate(x, fi, e)
                    el = join(el, ie)
                    ot |= io
            return seq(tup([el or sc(), el or sc()]), frozenset(ot), ("product", id(e)))
        if q in ("operator.itemgetter", "operator.attrgetter"):
            return V("func", x=("getter", q, list(a)))
        if q == "functools.partial" and a:
            return V("func", x=("partial", a[0], list(a[1:]), dict(kw)))
        if q == "functools.reduce" and len(a) >= 2:
            el, ot = self.iterate(a[1], fi, e)
            return sc(tt(el) | ot | (tt(a[2]) if len(a) > 2 else E))
        if q.startswith("operator."):
            return sc(allt)
        if q.startswith("random."):
            return add(sc(allt), self.src(ORDER, fi, e, q))
        return add(sc(allt), self.src(UNSUM, fi, e, q))

    def method(self, f, recv: V, name, a, kw, e, env, pc, fi):
        k = recv.kind
        allt = frozenset().union(*[tt(x) for x in a]) if a else E
        if k == "inst":
            m = self.repo.mro_method(recv.x[0], name)
            if m is not None:
                decos = [norm(d).split(".")[-1] for d in m.node.decorator_list]
                if "staticmethod" in decos:
                    return self.call_fn(m, list(a), kw, pc)
                return self.call_fn(m, [recv] + list(a), kw, pc)
            if name == "_asdict":
                return mp(join_all(list(recv.x[1].values())) if recv.x[1] else sc())
            if name == "_replace":
                flds = dict(recv.x[1]); flds.update(kw)
                return V("inst", recv.t, x=(recv.x[0], flds))
        if k == "graph":
            if name == "copy":
                return V("graph", recv.t, oid=recv.oid, x=dict(recv.x))       # same nodes, same insertion order
            if name == "neighbors":
                return seq(self.node(g=recv), self.src(ORDER, fi, e, "m.neighbors(a): neighbour listing order"), ("adj", id(e)))
            if name == "edges":
                return V("edgeview", x=recv)
            if name == "nodes":
                d = kw.get("data") or (a[0] if a else None)
                o = self.src(ORDER, fi, e, "m.nodes(..) (insertion order)")
                if d is None or (d.kind == "const" and d.x is False):
                    return seq(self.node(g=recv), o, ("iter", recv.oid))
                if d.kind == "const" and d.x is True:
                    return seq(tup([self.node(g=recv), V("attrdict", x=recv)]), o, ("iter", recv.oid))
                return seq(tup([self.node(g=recv), sc(recv.x.get(d.x, E) if d.kind == "const" else E)]), o, ("iter", recv.oid))
            if name in ("number_of_nodes", "number_of_edges", "order", "size", "degree", "has_edge", "has_node"):
                return sc()
            if name in ("add_nodes_from", "add_edges_from", "add_node", "add_edge", "remove_node", "remove_edge"):
                return V("none")
        if k == "nodeview":
            if name in ("values", "items", "keys"):
                g = recv.x
                o = self.src(ORDER, fi, e, f"m.nodes.{name}() (insertion order)")
                if name == "keys":
                    return seq(self.node(g=g), o, ("iter", g.oid))
                if name == "values":
                    return seq(V("attrdict", x=g), o, ("iter", g.oid))
                return seq(tup([self.node(g=g), V("attrdict", x=g)]), o, ("iter", g.oid))
            if name == "data":
                key = a[0] if a else kw.get("data")
                if key is not None and key.kind == "const" and isinstance(key.x, str):
                    return V("nodedata", x=(recv.x, key.x), oid=("iter", recv.x.oid))
                g = recv.x
                return seq(tup([self.node(g=g), V("attrdict", x=g)]), self.src(ORDER, fi, e, "m.nodes.data() (insertion order)"), ("iter", g.oid))
            if name in ("items",):
                g = recv.x
                return seq(tup([self.node(g=g), V("attrdict", x=g)]), self.src(ORDER, fi, e, "m.nodes.items() (insertion order)"), ("iter", g.oid))
        if k == "nodeattrs" and name == "get":
            g = recv.x[0]
            key = a[0].x if a and a[0].kind == "const" else "?"
            return sc(recv.t | g.x.get(key, E))
        if k == "attrdict":
            g = recv.x
            if name == "get":
                key = a[0].x if a and a[0].kind == "const" else "?"
                return sc(g.x.get(key, E))
            if name in ("items", "keys", "values"):
                return seq(sc(frozenset().union(*g.x.values()) if g.x else E), self.src(ORDER, fi, e, "attribute dict iteration"), None)
        if k == "igraph":
            if name == "canonical_permutation":
                c = kw.get("color")
                ct = vt(c) if c is not None else E
                aligned = c is not None and c.kind == "seq" and c.oid == recv.oid
                detail = "colours aligned with the vertex order" if aligned else "colour vector is not aligned with the vertex order"
                t = set(ct)
                if c is not None and not aligned:
                    t |= c.ot | recv.ot
                self.sinks.append(Sink("colour vector handed to bliss", fi, e, t, detail))
                # the canonical form is a function of the coloured graph only (bliss contract)
                if self.conv == "INV":
                    # result[canonical position] = vertex id: the order is canonical, the elements are vertex ids
                    r = seq(V("igidx", frozenset(t), x=recv.oid), frozenset(t), ("canon", recv.oid))
                else:
                    # result[vertex id] = canonical position: aligned with the vertex order, elements canonical
                    r = seq(sc(frozenset(t)), recv.ot, recv.oid)
                r.x = ("perm", recv, frozenset(t))
                return r
            if name == "permute_vertices":
                p = a[0] if a else None
                if p is not None and isinstance(p.x, tuple) and p.x[0] == "perm":
                    # canonical form: vertex order now depends only on what the colours depended on
                    return V("igraph", x=recv.x, ot=p.x[2], oid=("canon", recv.x.oid if recv.x.kind == "graph" else None), items=recv.items)
                return V("igraph", x=recv.x, ot=recv.ot | (tt(p) if p is not None else E), oid=("perm", id(e)), items=recv.items)
            if name in ("vcount", "ecount"):
                return sc()
        if k == "edgedata":
            if name in ("update", "clear", "pop", "setdefault"):
                self.notes.append(f"bond data written at {fi.loc(e)} (bond data is not read by the pipeline: R-ATTRREAD)")
                return V("none")
            if name in ("get", "items", "keys", "values", "copy"):
                return sc(recv.t | allt)
        if k == "map":
            if name == "values":
                return seq(recv.elem, recv.ot, recv.oid)
            if name == "items":
                return seq(tup([recv.x if isinstance(recv.x, V) else sc(), recv.elem]), recv.ot, recv.oid)
            if name == "keys":
                return seq(recv.x if isinstance(recv.x, V) else sc(), recv.ot, recv.oid)
            if name == "pop":
                kt = without(tt(a[0]), LABEL) if a else E
                return add(join(recv.elem, a[1] if len(a) > 1 else None), kt)
            if name == "get":
                kt = without(tt(a[0]), LABEL) if a else E
                return add(join(recv.elem, a[1] if len(a) > 1 else None), kt)
            if name == "setdefault":
                # inserts the key when it is new: the dictionary's own order is the order in which keys were first seen
                kt = without(tt(a[0]), LABEL) if a else E
                newel = join(recv.elem, a[1] if len(a) > 1 else V("none"))
                vpc = E if a and a[0].kind == "node" else pc
                nb = V("map", recv.t, newel, recv.ot | pc | self.oc() | kt, recv.oid, x=join(recv.x, a[0]) if isinstance(recv.x, V) and a else (a[0] if a else recv.x))
                try:
                    self.rebind(f.value, nb, env, fi)
                except AnalysisError:
                    pass
                return add(newel, kt | vpc) if newel is not None else sc(kt)
            if name == "copy":
                return recv
            if name == "update":
                src = a[0]
                el, ot = self.iterate(src, fi, e)
                v = el.items[1] if el.kind == "tuple" and len(el.items) == 2 else el
                arg = e.args[0]
                selfmap = (isinstance(arg, (ast.GeneratorExp, ast.ListComp)) and len(arg.generators) == 1
                           and norm(arg.generators[0].iter) == norm(f.value) + ".items()"
                           and isinstance(arg.elt, ast.Tuple) and len(arg.elt.elts) == 2 and isinstance(arg.generators[0].target, ast.Tuple)
                           and norm(arg.elt.elts[0]) == norm(arg.generators[0].target.elts[0]) and not arg.generators[0].ifs)
                newel = v if selfmap else join(recv.elem, v)      # self-map: every value is replaced (strong update)
                self.rebind(f.value, V("map", recv.t, newel, recv.ot, recv.oid, x=recv.x), env, fi)
                return V("none")
        if k == "seq":
            if name in ("append", "appendleft", "add", "insert"):
                v = a[-1]
                self.rebind(f.value, seq(join(recv.elem, v), recv.ot | pc | self.oc(), ("mut", recv.oid)), env, fi)
                return V("none")
            if name in ("extend", "extendleft", "update"):
                el, ot = self.iterate(a[0], fi, e)
                self.rebind(f.value, seq(join(recv.elem, el), recv.ot | ot | pc | self.oc(), ("mut", recv.oid)), env, fi)
                return V("none")
            if name in ("pop", "popleft"):
                return add(recv.elem, recv.ot)
            if name in ("copy",):
                return recv
            if name in ("sort",):
                el = recv.elem
                self.rebind(f.value, seq(el, vt(el) if "key" not in kw else tt(el) | recv.ot, ("sorted", id(e))), env, fi)
                return V("none")
            if name == "reverse":
                return V("none")
            if name in ("index", "count"):
                return sc(tt(recv) | allt)
        if k in ("const", "scalar", "none") and name in ("append", "appendleft", "add", "extend", "extendleft", "insert", "update", "setdefault") and not isinstance(f.value, ast.Attribute):
            raise AnalysisError(f"taint interpreter: `{short(e, 50)}` at {fi.loc(e)} changes a container this analysis lost track of ({k})")
        if k in ("const", "scalar") and name == "join":
            el, ot = self.iterate(a[0], fi, e)
            return sc(tt(el) | ot | tt(recv))
        if k in ("const", "scalar", "node") and name in ("format", "strip", "split", "replace", "lower", "upper", "startswith", "endswith", "zfill"):
            return sc(tt(recv) | allt)
        if k == "tuple" and name in ("index", "count"):
            return sc(tt(recv) | allt)
        if k == "edgeview" and name == "data":
            return V("edgeview", x=recv.x)
        if k == "bound":
            b, attr = recv.x
            return add(sc(tt(b) | allt), self.src(UNSUM, fi, e, f".{attr}.{name}()"))
        return add(sc(tt(recv) | allt), self.src(UNSUM, fi, e, f"{k}.{name}()"))


def _is_generator(fn) -> bool:
    for n in ast.walk(fn):
        if isinstance(n, (ast.Yield, ast.YieldFrom)):
            return True
    return False


def _is_recursive(interp: TaintInterp, fi: FuncInfo) -> bool:
    return fi.fq in interp.cg.edges.get(fi.fq, ())
