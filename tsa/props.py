"""Property -> rule list, with what is decided / not decided.  The rule lists
are the claims; MANIFEST.json is generated from this table (tsa.manifest)."""
from __future__ import annotations

COMMON_ASSUMPTIONS = [
    "CPython semantics of the interpreted subset",
    "library summaries for networkx / igraph / antlr4 runtime (DESIGN.md 3.4)",
]

PROPERTIES: dict[str, dict] = {
    "C01": {
        "rules": ["R-BLISS", "R-FLOW-CANON", "R-FLOW-SERIAL", "R-KEYS", "R-BIJ", "R-OWNFIRST", "R-HASH", "R-INDEXSPACE", "R-GRAPHBUILD", "R-REBUILD", "R-ATTRREAD", "R-GLOBAL", "R-IDXTRUTH", "R-CANONPATH", "R-INVCODE",
                  "R-COLS", "R-V2SAMPLE", "R-V3SAMPLE"],
        "thorough_rules": ["R-LIBSRC"],
        "technique": "information-flow (order/label/hash taint) abstract interpretation + index-space typing of the bliss call site",
        "explanation": "Non-interference proof over all paths of canonicalize_molecule and serialize_molecule: colours handed to bliss carry no "
                       "label/listing-order/hash taint, the bliss permutation is consumed in the index convention of the installed igraph "
                       "(typed as Map[NX=>CAN]), every relabel map is a bijection, and the returned string carries no order/hash taint. "
                       "Sufficient modulo the library summaries and the canonical-form contract of bliss.",
        "not_decided": "correctness of bliss itself; termination",
        "assumptions": COMMON_ASSUMPTIONS + ["bliss returns a canonical form for colour-isomorphic graphs", "igraph index convention table per version (spec.py)"],
    },
    "C02": {
        "rules": ["R-CODEC", "R-KEYS", "R-ELEMTABLE", "R-LEX", "R-ATTRREAD", "R-REBUILD", "R-EXPRESS", "R-SYMZ", "R-RECMERGE", "R-INVCODE", "R-SUPERSEDE", "R-ATOMLINE", "R-SERIALSAMPLE"],
        "technique": "structural losslessness rules on serializer/parser + automata check of unique tokenisation",
        "explanation": "Necessary conditions of injectivity, each decided over all code paths: every edge / labelled atom / atom is emitted "
                       "(no filter), indices are label+1 and decoded as index-1, numbering is by atomic number first so the formula identifies "
                       "each index's element, symbol<->number is a bijection, the colouring and the string use exactly (Z, mass, rad), the "
                       "textual encoding is uniquely decodable by maximal munch.",
        "not_decided": "injectivity itself (a statement about all pairs of graphs)",
        "assumptions": COMMON_ASSUMPTIONS,
    },
    "C03": {
        "rules": ["R-CODEC", "R-KEYS", "R-ELEMTABLE", "R-GRAM3", "R-SHAPE", "R-ZERO", "R-BLISS", "R-FLOW-CANON", "R-FLOW-SERIAL", "R-BIJ", "R-REBUILD", "R-EXPRESS", "R-ATTRREAD", "R-REJECT", "R-GLOBAL", "R-RECMERGE", "R-PARSEPATH", "R-SERIALSAMPLE"],
        "thorough_rules": ["R-LIBSRC"],
        "technique": "codec-agreement rules + language inclusion (emitted ⊆ grammar) by automata + the C01 flow proof for the fixed-point half",
        "explanation": "Serializer/parser agreement (offsets, key tables, numbering by atomic number, stable sort), emitted strings are sentences of the "
                       "grammar the parser implements (inclusion decided on automata), and the pipeline is independent of insertion order and labels "
                       "of its input (C01 rules), which is what the fixed-point half needs.",
        "not_decided": "isomorphism of parse(tucan(G)) and G as a behaviour",
        "assumptions": COMMON_ASSUMPTIONS,
    },
    "C04": {
        "rules": ["R-BLISS", "R-BIJ", "R-FLOW-CANON", "R-COPY", "R-KEYS", "R-OWNFIRST", "R-GRAPHBUILD", "R-INDEXSPACE", "R-ATTRREAD", "R-GLOBAL", "R-CANONPATH", "R-INVCODE"],
        "thorough_rules": ["R-LIBSRC"],
        "technique": "index-space typing of the bliss call site + taint analysis of the colour vector",
        "explanation": "The property's own mechanism: label-independent colours (taint proof), bliss called with them, its result used in the "
                       "convention of the installed igraph (or through permute_vertices), the relabel map typed Map[NX=>CAN] and bijective.",
        "not_decided": "bliss's canonical-form contract is trusted",
        "assumptions": COMMON_ASSUMPTIONS + ["igraph index convention table per version (spec.py)"],
    },
    "C05": {
        "rules": ["R-SHAPE", "R-LAYOUT", "R-ZERO", "R-FLOW-SERIAL", "R-ELEMTABLE", "R-GRAM3", "R-CODEC", "R-REBUILD", "R-EXPRESS", "R-SYMZ", "R-SERIALSAMPLE"],
        "technique": "string-shape abstract interpretation of the serializer + regular-language inclusion in the EBNF automaton",
        "explanation": "The serializer's writer functions are evaluated symbolically (all paths) into a regular expression over grammar tokens and "
                       "typed integer holes; inclusion in L_EBNF(tucan) is decided by a product walk. Value holes are positive by R-ZERO; ascending / "
                       "a<b / once-per-atom layout follows from the sortedness tags of R-FLOW-SERIAL; Hill order = sorted order by R-ELEMTABLE.",
        "not_decided": "formula equals the molecule's element counts beyond being a Counter over all nodes",
        "assumptions": COMMON_ASSUMPTIONS + ["attribute values of graphs reaching the serializer come from the readers or the parser"],
    },
    "C06": {
        "rules": ["R-ATTRREAD", "R-KEYS", "R-PROV", "R-KWEXACT", "R-ZERO", "R-SUPERSEDE", "R-SPLICE", "R-INDEXSPACE", "R-GRAPHBUILD", "R-FLOW-SERIAL", "R-FLOW-CANON", "R-DISPATCH", "R-IDXTRUTH", "R-COLS", "R-COUNTSLINE", "R-V2SAMPLE", "R-V3SAMPLE"],
        "technique": "read-set analysis of the pipeline + provenance taint in the readers + partial evaluation of keyword recognizers",
        "explanation": "The pipeline reads only invariant code / partition / Z / symbol / mass / rad and no edge data; the invariant code is exactly "
                       "(Z, mass, rad); in both readers those attributes receive values only from their own fields (provenance labels); an unrelated "
                       "keyword cannot be mistaken for MASS/RAD/CHG; explicit defaults are dropped.",
        "not_decided": "behaviour on every pair of renderings (line endings, trailing blocks) beyond the read-set argument",
        "assumptions": COMMON_ASSUMPTIONS + ["CTfile V3000 atom keyword list (spec.py)"],
    },
    "C07": {
        "rules": ["R-KWEXACT", "R-ZERO", "R-ORDERING", "R-SPLICE", "R-TOKENS", "R-SIBKEYS", "R-PROV", "R-ALIAS", "R-WRAP", "R-INDEXSPACE", "R-GRAPHBUILD", "R-DISPATCH", "R-SYMZ", "R-BONDTYPE", "R-IDXTRUTH", "R-COUNTSLINE", "R-NONECHECK", "R-ATOMLINE", "R-V3SAMPLE"],
        "technique": "partial evaluation of token predicates over the spec's keyword set + heap-based taint analysis of the reader + CFG ordering rules",
        "explanation": "Keyword recognizers accept exactly their keyword; zero-valued explicit defaults never reach atom records; splicing precedes "
                       "tokenising and bond endpoints are validated before return; D/T pass through the shared helper; per-bond dictionaries are not shared.",
        "not_decided": "equality read(t) = M over every spelling (continuation at every split point, arbitrary blank runs)",
        "assumptions": COMMON_ASSUMPTIONS + ["CTfile V3000 atom keyword list (spec.py)"],
    },
    "C08": {
        "rules": ["R-COLS", "R-CHGTABLE", "R-SIBKEYS", "R-KILL", "R-SUPERSEDE", "R-ZERO", "R-PROV", "R-INDEXSPACE", "R-GRAPHBUILD", "R-FLOW-SERIAL", "R-FLOW-CANON", "R-DISPATCH", "R-SYMZ", "R-BONDTYPE", "R-IDXTRUTH", "R-ATOMLINE", "R-ALIAS", "R-V2SAMPLE"],
        "technique": "column-span checking via provenance labels and partial evaluation + kill/def analysis of the property block",
        "explanation": "Every column slice equals its CTfile field (atom, bond, counts and the affine property-entry layout for entries 1..8), the "
                       "charge-code table is the format's, both readers write the same keys, symbol-derived masses are never cleared, CHG/RAD lines "
                       "supersede both attributes before the merge, explicit zero entries are dropped.",
        "not_decided": "equality of both readers' outputs over all molecules and all groupings of entries into lines",
        "assumptions": COMMON_ASSUMPTIONS + ["CTfile V2000 column layout and charge codes (spec.py)"],
    },
    "C09": {
        "rules": ["R-LEN", "R-WRAP", "R-FIELDS", "R-NUMTEXT", "R-FLOW-SERIAL", "R-FLOW-CANON", "R-ORDERING", "R-INDEXSPACE", "R-GRAPHBUILD", "R-BONDTYPE", "R-CODEC", "R-WRITESAMPLE"],
        "technique": "interval analysis of emitted line lengths + writer/reader constant and field-position agreement",
        "explanation": "Sound interval proof that every appended line is <= 79 characters; wrap prefix / offset / continuation character agree between "
                       "writer and reader; the writer's line templates put fields where the reader subscripts them.",
        "not_decided": "splice(wrap(s)) = s for every s as a behaviour; float formatting round trip",
        "assumptions": COMMON_ASSUMPTIONS,
    },
    "C10": {
        "rules": ["R-GRAM3", "R-LEX", "R-GRAMREC", "R-LISTENERS", "R-HANDLERS", "R-ORDERING", "R-DUPATTR", "R-ESCAPE", "R-REJECT", "R-ALIAS", "R-KEYS", "R-ELEMTABLE", "R-CODEC", "R-GRAPHBUILD", "R-GLOBAL", "R-PARSEPATH", "R-IDXTRUTH", "R-LISTENSAMPLE"],
        "thorough_rules": ["R-GENCODE"],
        "technique": "language equivalence EBNF = G4 = generated ATN by automata + typestate/CFG rules on the parser wiring",
        "explanation": "The recogniser the parser runs is the published grammar (decision procedure over all strings: three-way language equivalence "
                       "and maximal-munch agreement); every recognition error becomes the parser's exception and input is consumed to EOF; handlers "
                       "exist for every data-carrying rule; indices are validated before use; table look-ups cannot raise.",
        "not_decided": "ANTLR's ALL(*) engine implementing its ATN faithfully; numbers beyond int's digit limit",
        "assumptions": COMMON_ASSUMPTIONS + ["numbers in TUCAN strings stay below the interpreter's integer-conversion limit"],
    },
    "C11": {
        "rules": ["R-FLOW-PARSE", "R-BLISS", "R-FLOW-CANON", "R-FLOW-SERIAL", "R-BIJ", "R-KEYS", "R-REBUILD", "R-ATTRREAD", "R-GLOBAL", "R-CODEC", "R-REJECT", "R-PARSEPATH", "R-CANONPATH", "R-INVCODE", "R-LISTENSAMPLE"],
        "thorough_rules": ["R-LIBSRC"],
        "technique": "taint analysis of the parser listener composed with the C01 flow proof",
        "explanation": "Spelling (tuple order, orientation, repetition, block order) reaches the parsed graph only as insertion order; the pipeline is "
                       "proved independent of insertion order and labels (C01 rules).",
        "not_decided": "nothing beyond what C01 / C10 leave open",
        "assumptions": COMMON_ASSUMPTIONS,
    },
    "C12": {
        "rules": ["R-EFFECT", "R-COPY", "R-BIJ", "R-GLOBAL", "R-REBUILD", "R-ATTRREAD", "R-RECMERGE", "R-EDGEDATA", "R-BLISS"],
        "thorough_rules": ["R-LIBSRC"],
        "technique": "effect analysis (mutation of arguments / shared objects) + bijection proof of relabel maps",
        "explanation": "canonicalize_molecule mutates nothing reachable from its argument; serialize_molecule writes only the scratch key `explored`, "
                       "initialised before it is read; relabels work on copies with bijective maps, so no atom or bond is merged or lost.",
        "not_decided": "nothing structural",
        "assumptions": COMMON_ASSUMPTIONS,
    },
    "C13": {
        "rules": ["R-FLOW-CANON", "R-OWNFIRST", "R-FIXPOINT", "R-KEYS", "R-ATTRREAD", "R-GLOBAL", "R-CANONPATH", "R-INVCODE", "R-COLS", "R-INDEXSPACE"],
        "technique": "taint analysis of the class values + structural rules on the refinement key and its termination idiom",
        "explanation": "Class values carry no label/order/hash taint; the refinement key starts with the atom's own class and continues with the sorted "
                       "neighbour classes, ids are dense ranks of the sorted key set; the driver returns only a partition whose class count equals "
                       "that of its refinement.",
        "not_decided": "equitability as a computed fact for each molecule",
        "assumptions": COMMON_ASSUMPTIONS,
    },
    "C14": {
        "rules": ["R-NONDET", "R-GLOBAL", "R-HASH", "R-LISTENERS", "R-SEED"],
        "technique": "source-to-result flow analysis for nondeterministic sources + shared-state write rules + hash-order taint",
        "explanation": "No value from RNG / clock / environment / id / hash sources reaches a public result (two named exceptions), no function writes "
                       "module-level or class-level state, no set-iteration order reaches a result, a fresh lexer/parser/listener is built per call.",
        "not_decided": "thread-safety of the ANTLR runtime's shared DFA cache and of igraph; schedules are not explored",
        "assumptions": COMMON_ASSUMPTIONS,
    },
    "C15": {
        "rules": ["R-NOREC", "R-GRAMREC", "R-FAILSITES", "R-BIJ", "R-NOBONDS", "R-REJECT", "R-FIXPOINT", "R-SERIALSAMPLE"],
        "technique": "call-graph cycle detection + grammar rule-graph acyclicity + enumeration of rejecting constructs in the pipeline",
        "explanation": "No input-dependent recursion in tucan code reachable from the public entry points; parse depth is bounded by the number of "
                       "grammar rules because the rule graphs (EBNF, G4, generated ATN) are acyclic; the pipeline contains no raise / size guard, and its one "
                       "assertion is discharged by the traversal loop's exit condition.",
        "not_decided": "absence of index/key/assertion errors for every shape; loop termination; memory",
        "assumptions": COMMON_ASSUMPTIONS,
    },
    "C16": {
        "rules": ["R-CARRY", "R-LABELORDER", "R-SEED", "R-RETRY", "R-COPY", "R-BIJ", "R-EFFECT", "R-REBUILD", "R-PERMSAMPLE"],
        "thorough_rules": ["R-LIBSRC"],
        "technique": "CFG dominance / must-pass-through rules + def-use tracing of the rebuilt graph's sources",
        "explanation": "The rebuilt graph takes nodes from nodes(data=True) in sorted label order and edges from edges(data=True); random.seed(<seed "
                       "parameter>) dominates every RNG draw; return is reachable only over the changed-edge-set test when the graph has >= 2 edges and "
                       "is not complete; the argument is not mutated; the relabel map is a permutation of the label set.",
        "not_decided": "termination of the retry loop",
        "assumptions": COMMON_ASSUMPTIONS,
    },
}


def implemented(prop: str) -> tuple[list[str], list[str]]:
    """(rules available now, rules still missing)"""
    from .rules import REGISTRY
    spec = PROPERTIES[prop]
    rs = spec["rules"]
    return [r for r in rs if r in REGISTRY], [r for r in rs if r not in REGISTRY]
