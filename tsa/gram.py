"""Grammar / automata kit.

* reader for the two grammar files (W3C-style EBNF and ANTLR4 .g4) -> rule ASTs
* extraction of the serialized ATN literal from the generated lexer / parser
  (`ast.literal_eval`, then the antlr4 runtime's ATNDeserializer — the same
  table decoder the library itself uses; no tucan code is executed)
* Thompson NFAs, bitset subset construction, product walk for equivalence /
  inclusion with a shortest distinguishing word as witness.
"""
from __future__ import annotations

import ast
import collections
import re
from typing import Iterable, Optional

from .model import AnalysisError, Repo

# --------------------------------------------------------------------------- grammar files

_TOK = re.compile(r"""'(?:[^'\\]|\\.)*'|"(?:[^"\\]|\\.)*"|\[(?:[^\]\\]|\\.)*\]|::=|->|[A-Za-z_][A-Za-z_0-9]*|[|()?*+:;~.]""")


def _tokenize(src: str, antlr: bool) -> list[str]:
    if antlr:
        src = re.sub(r"/\*.*?\*/", " ", src, flags=re.S)
        src = re.sub(r"//[^\n]*", " ", src)
    else:
        src = re.sub(r"/\*.*?\*/", " ", src, flags=re.S)
    toks = _TOK.findall(src)
    rest = _TOK.sub(" ", src).split()
    if rest:
        raise AnalysisError(f"grammar file contains text the reader does not understand: {rest[:3]}")
    return toks


def parse_grammar(src: str, antlr: bool) -> dict[str, tuple]:
    """-> {rule name: AST}; AST nodes: ('tok', text) ('cls', '[..]') ('ref', name)
    ('cat', [..]) ('alt', [..]) ('opt'|'star'|'plus', x)"""
    toks = _tokenize(src, antlr)
    rules: dict[str, list[str]] = {}
    if antlr:
        i = 0
        if toks[:1] in (["grammar"], ["parser"], ["lexer"]):
            while toks[i] != ";":
                i += 1
            i += 1
        while i < len(toks):
            if toks[i] == "fragment":
                i += 1
            name = toks[i]
            if i + 1 >= len(toks) or toks[i + 1] != ":":
                raise AnalysisError(f"g4 reader: expected ':' after {name}")
            j = i + 2
            body = []
            while j < len(toks) and toks[j] != ";":
                body.append(toks[j])
                j += 1
            if name in rules:
                raise AnalysisError(f"g4: rule {name} defined twice")
            rules[name] = body
            i = j + 1
    else:
        idx = [k for k, t in enumerate(toks) if t == "::="]
        for n, k in enumerate(idx):
            end = (idx[n + 1] - 1) if n + 1 < len(idx) else len(toks)
            name = toks[k - 1]
            if name in rules:
                raise AnalysisError(f"ebnf: rule {name} defined twice")
            rules[name] = toks[k + 1:end]
    return {k: _parse_alt(v, k) for k, v in rules.items()}


def _parse_alt(toks: list[str], rule: str):
    pos = [0]

    def alt():
        seqs = [seq()]
        while pos[0] < len(toks) and toks[pos[0]] == "|":
            pos[0] += 1
            seqs.append(seq())
        return ("alt", seqs) if len(seqs) > 1 else seqs[0]

    def seq():
        items = []
        while pos[0] < len(toks) and toks[pos[0]] not in ("|", ")"):
            if toks[pos[0]] == "->":     # lexer command (skip, channel) changes the token stream
                raise AnalysisError(f"grammar rule {rule}: lexer command not supported")
            items.append(post())
        return ("cat", items)

    def post():
        a = atom()
        while pos[0] < len(toks) and toks[pos[0]] in ("?", "*", "+"):
            a = ({"?": "opt", "*": "star", "+": "plus"}[toks[pos[0]]], a)
            pos[0] += 1
        return a

    def atom():
        if pos[0] >= len(toks):
            raise AnalysisError(f"grammar rule {rule}: unexpected end")
        t = toks[pos[0]]
        pos[0] += 1
        if t == "(":
            a = alt()
            if pos[0] >= len(toks) or toks[pos[0]] != ")":
                raise AnalysisError(f"grammar rule {rule}: missing ')'")
            pos[0] += 1
            return a
        if t[0] in "'\"":
            return ("tok", _unescape(t[1:-1]))
        if t[0] == "[":
            return ("cls", t)
        if t in ("~", "."):
            raise AnalysisError(f"grammar rule {rule}: operator {t} not supported")
        return ("ref", t)

    r = alt()
    if pos[0] != len(toks):
        raise AnalysisError(f"grammar rule {rule}: trailing tokens {toks[pos[0]:pos[0] + 3]}")
    return r


def _unescape(s: str) -> str:
    return re.sub(r"\\(.)", lambda m: {"n": "\n", "t": "\t", "r": "\r"}.get(m.group(1), m.group(1)), s)


def charclass(cls: str) -> frozenset[str]:
    """'[1-9]' -> set of characters"""
    body = cls[1:-1]
    out, i = set(), 0
    while i < len(body):
        c = body[i]
        if c == "\\" and i + 1 < len(body):
            c = _unescape(body[i:i + 2])
            i += 1
        if i + 2 < len(body) and body[i + 1] == "-":
            hi = body[i + 2]
            for o in range(ord(c), ord(hi) + 1):
                out.add(chr(o))
            i += 3
        else:
            out.add(c)
            i += 1
    return frozenset(out)


def rule_refs(node) -> set[str]:
    k = node[0]
    if k == "ref":
        return {node[1]}
    if k in ("tok", "cls", "toks", "eps"):
        return set()
    if k in ("cat", "alt"):
        out = set()
        for x in node[1]:
            out |= rule_refs(x)
        return out
    return rule_refs(node[1])


def find_cycle(graph: dict[str, set[str]]) -> Optional[list[str]]:
    WHITE, GREY, BLACK = 0, 1, 2
    col = {k: WHITE for k in graph}
    for root in graph:
        if col[root] != WHITE:
            continue
        stack = [(root, iter(sorted(graph.get(root, ()))))]
        col[root] = GREY
        path = [root]
        while stack:
            u, it = stack[-1]
            adv = False
            for v in it:
                if v not in graph:
                    continue
                if col[v] == GREY:
                    return path[path.index(v):] + [v]
                if col[v] == WHITE:
                    col[v] = GREY
                    path.append(v)
                    stack.append((v, iter(sorted(graph.get(v, ())))))
                    adv = True
                    break
            if not adv:
                col[u] = BLACK
                path.pop()
                stack.pop()
    return None


def literals_of(rules: dict[str, tuple], start: str) -> set[str]:
    out, seen, work = set(), set(), [start]
    while work:
        r = work.pop()
        if r in seen or r not in rules:
            continue
        seen.add(r)

        def walk(n):
            if n[0] == "tok":
                out.add(n[1])
            elif n[0] == "ref":
                work.append(n[1])
            elif n[0] in ("cat", "alt"):
                for x in n[1]:
                    walk(x)
            elif n[0] in ("opt", "star", "plus"):
                walk(n[1])
        walk(rules[r])
    return out


# --------------------------------------------------------------------------- NFA kit

class NFA:
    def __init__(self):
        self.n = 0
        self.eps: dict[int, set[int]] = collections.defaultdict(set)
        self.tr: dict[int, dict[object, set[int]]] = collections.defaultdict(dict)

    def new(self) -> int:
        self.n += 1
        return self.n - 1

    def edge(self, a: int, sym, b: int):
        self.tr[a].setdefault(sym, set()).add(b)


def build(nfa: NFA, node, rules=None, lex: Iterable[str] = (), charlevel: bool = False, _stack=()):
    """Thompson construction.  `lex` = names of rules treated as terminal symbols.
    With charlevel=True, 'tok' nodes are spelled character by character and
    'cls' nodes become character alternatives (used for lexer rules)."""
    k = node[0]
    if k == "tok":
        if charlevel:
            a = nfa.new()
            cur = a
            for ch in node[1]:
                b = nfa.new()
                nfa.edge(cur, ch, b)
                cur = b
            return a, cur
        a, b = nfa.new(), nfa.new()
        nfa.edge(a, node[1], b)
        return a, b
    if k == "toks":
        a, b = nfa.new(), nfa.new()
        for t in node[1]:
            nfa.edge(a, t, b)
        return a, b
    if k == "cls":
        if not charlevel:
            raise AnalysisError("character class in a parser rule")
        a, b = nfa.new(), nfa.new()
        for ch in charclass(node[1]):
            nfa.edge(a, ch, b)
        return a, b
    if k == "eps":
        a, b = nfa.new(), nfa.new()
        nfa.eps[a].add(b)
        return a, b
    if k == "ref":
        name = node[1]
        if name == "EOF":
            return build(nfa, ("eps",))
        if name in lex:
            return build(nfa, ("tok", name))
        if rules is None or name not in rules:
            raise AnalysisError(f"grammar refers to undefined rule {name}")
        if name in _stack:
            raise AnalysisError(f"grammar is recursive through {name}")
        return build(nfa, rules[name], rules, lex, charlevel, _stack + (name,))
    if k == "cat":
        a = nfa.new()
        cur = a
        for it in node[1]:
            x, y = build(nfa, it, rules, lex, charlevel, _stack)
            nfa.eps[cur].add(x)
            cur = y
        return a, cur
    if k == "alt":
        a, b = nfa.new(), nfa.new()
        for it in node[1]:
            x, y = build(nfa, it, rules, lex, charlevel, _stack)
            nfa.eps[a].add(x)
            nfa.eps[y].add(b)
        return a, b
    if k in ("opt", "star", "plus"):
        a, b = nfa.new(), nfa.new()
        x, y = build(nfa, node[1], rules, lex, charlevel, _stack)
        nfa.eps[a].add(x)
        nfa.eps[y].add(b)
        if k != "plus":
            nfa.eps[a].add(b)
        if k != "opt":
            nfa.eps[y].add(x)
        return a, b
    raise AnalysisError(f"grammar AST node {k}")


class Det:
    """lazy determinisation with bitset state sets"""

    def __init__(self, nfa: NFA, start: int, final: int):
        self.nfa, self.final = nfa, final
        self.clo: list[Optional[int]] = [None] * nfa.n
        self.trmask = 0
        for q in nfa.tr:
            if nfa.tr[q]:
                self.trmask |= 1 << q
        self.start = self._closure(start)
        self.cache: dict[int, dict] = {}

    def _closure(self, q):
        if self.clo[q] is not None:
            return self.clo[q]
        seen = {q}
        st = [q]
        while st:
            x = st.pop()
            for r in self.nfa.eps.get(x, ()):
                if r not in seen:
                    seen.add(r)
                    st.append(r)
        m = 0
        for x in seen:
            m |= 1 << x
        self.clo[q] = m
        return m

    @staticmethod
    def members(S):
        while S:
            low = S & -S
            yield low.bit_length() - 1
            S ^= low

    def moves(self, S):
        if S in self.cache:
            return self.cache[S]
        out: dict = {}
        for q in self.members(S & self.trmask):
            for sym, tg in self.nfa.tr[q].items():
                m = out.get(sym, 0)
                for t in tg:
                    c = self.clo[t]
                    m |= c if c is not None else self._closure(t)
                out[sym] = m
        self.cache[S] = out
        return out

    def accepting(self, S) -> bool:
        return bool(S >> self.final & 1)

    def accepts(self, word) -> bool:
        S = self.start
        for sym in word:
            S = self.moves(S).get(sym, 0)
            if not S:
                return False
        return self.accepting(S)

    def reachable_states(self, limit: int = 200000):
        seen = {self.start}
        work = [self.start]
        while work:
            S = work.pop()
            for sym, T in self.moves(S).items():
                if T not in seen:
                    seen.add(T)
                    work.append(T)
                    if len(seen) > limit:
                        raise AnalysisError("automaton too large")
        return seen


def compare(A: Det, B: Det, mode: str = "equiv"):
    """mode 'equiv': L(A)==L(B); mode 'subset': L(A) ⊆ L(B).
    -> (ok, witness word or None, number of product states explored, which side accepts the witness)"""
    start = (A.start, B.start)
    seen = {start}
    work = collections.deque([(start, ())])
    n = 0
    while work:
        (a, b), path = work.popleft()
        n += 1
        fa = A.accepting(a) if a else False
        fb = B.accepting(b) if b else False
        if mode == "equiv" and fa != fb:
            return False, path, n, ("left" if fa else "right")
        if mode == "subset" and fa and not fb:
            return False, path, n, "left"
        ma = A.moves(a) if a else {}
        mb = B.moves(b) if b else {}
        syms = set(ma) | (set(mb) if mode == "equiv" else set())
        for sy in sorted(syms, key=str):
            p = (ma.get(sy, 0), mb.get(sy, 0))
            if mode == "subset" and not p[0]:
                continue
            if p not in seen:
                seen.add(p)
                work.append((p, path + (sy,)))
    return True, None, n, None


def det_of(rules, start: str, lex=(), charlevel=False) -> Det:
    n = NFA()
    a, b = build(n, ("ref", start), rules, lex, charlevel)
    return Det(n, a, b)


# --------------------------------------------------------------------------- generated tables

def _literal_list(tree: ast.Module, owner: str | None, name: str):
    """value of a literal list assigned at module level (function serializedATN)
    or as class attribute"""
    for n in tree.body:
        if isinstance(n, ast.FunctionDef) and n.name == name:
            for st in n.body:
                if isinstance(st, ast.Return):
                    try:
                        return ast.literal_eval(st.value)
                    except (NameError, UnboundLocalError):
                        raise
                    except Exception:
                        raise AnalysisError(f"{name}(): not a literal")
        if isinstance(n, ast.ClassDef) and n.name == owner:
            for st in n.body:
                if isinstance(st, ast.Assign) and isinstance(st.targets[0], ast.Name) and st.targets[0].id == name:
                    try:
                        return ast.literal_eval(st.value)
                    except (NameError, UnboundLocalError):
                        raise
                    except Exception:
                        raise AnalysisError(f"{owner}.{name}: not a literal")
    raise AnalysisError(f"generated table {name} not found")


class Generated:
    """tables of the generated lexer/parser, read as literals"""

    def __init__(self, repo: Repo):
        from antlr4.atn.ATNDeserializer import ATNDeserializer
        self.repo = repo
        self.ptree = ast.parse(repo.text("tucan/parser/tucanParser.py"))
        self.ltree = ast.parse(repo.text("tucan/parser/tucanLexer.py"))
        try:
            self.patn = ATNDeserializer().deserialize(_literal_list(self.ptree, None, "serializedATN"))
            self.latn = ATNDeserializer().deserialize(_literal_list(self.ltree, None, "serializedATN"))
        except AnalysisError:
            raise
        except (NameError, UnboundLocalError):
            raise
        except Exception as e:
            raise AnalysisError(f"serialized ATN does not deserialize: {type(e).__name__}: {e}")
        self.rule_names = _literal_list(self.ptree, "tucanParser", "ruleNames")
        self.p_literal_names = _literal_list(self.ptree, "tucanParser", "literalNames")
        self.p_symbolic_names = _literal_list(self.ptree, "tucanParser", "symbolicNames")
        self.l_rule_names = _literal_list(self.ltree, "tucanLexer", "ruleNames")
        self.l_literal_names = _literal_list(self.ltree, "tucanLexer", "literalNames")
        self.l_symbolic_names = _literal_list(self.ltree, "tucanLexer", "symbolicNames")
        if self.patn.grammarType != 1 or self.latn.grammarType != 0:
            raise AnalysisError("ATN grammar types are not (parser, lexer)")
        if len(self.rule_names) != len(self.patn.ruleToStartState):
            raise AnalysisError("ruleNames length differs from the ATN's rule count")

    # ---- parser ATN
    def rule_index(self, name: str) -> int:
        if name not in self.rule_names:
            raise AnalysisError(f"parser rule {name} vanished from the generated parser")
        return self.rule_names.index(name)

    def rule_graph(self) -> dict[str, set[str]]:
        from antlr4.atn.Transition import RuleTransition
        g = {n: set() for n in self.rule_names}
        for s in self.patn.states:
            if s is None:
                continue
            for t in s.transitions:
                if isinstance(t, RuleTransition):
                    g[self.rule_names[s.ruleIndex]].add(self.rule_names[t.ruleIndex])
        return g

    def parser_nfa(self, start_rule: str, token_text: dict[int, str]) -> tuple[NFA, int, int]:
        """NFA over token texts for one parser rule, rule transitions inlined
        (rule graph must be acyclic — checked by the caller)."""
        from antlr4.atn.Transition import (AtomTransition, EpsilonTransition, RuleTransition, SetTransition,
                                           RangeTransition, NotSetTransition, WildcardTransition,
                                           PredicateTransition, ActionTransition, PrecedencePredicateTransition)
        from antlr4.Token import Token
        nfa = NFA()
        atn = self.patn

        def sym(tt: int):
            if tt == Token.EOF:
                return None
            if tt not in token_text:
                raise AnalysisError(f"parser ATN uses token type {tt} that the lexer never produces")
            return token_text[tt]

        def inline(ri: int, depth: int) -> tuple[int, int]:
            if depth > 64:
                raise AnalysisError("parser ATN rule nesting too deep / recursive")
            start = atn.ruleToStartState[ri]
            stop = atn.ruleToStopState[ri]
            m: dict[int, int] = {}

            def q(s):
                if s.stateNumber not in m:
                    m[s.stateNumber] = nfa.new()
                return m[s.stateNumber]
            work = [start]
            seen = set()
            while work:
                s = work.pop()
                if s.stateNumber in seen:
                    continue
                seen.add(s.stateNumber)
                if s is stop:
                    continue
                for t in s.transitions:
                    if isinstance(t, RuleTransition):
                        a, b = inline(t.ruleIndex, depth + 1)
                        nfa.eps[q(s)].add(a)
                        nfa.eps[b].add(q(t.followState))
                        work.append(t.followState)
                        continue
                    if isinstance(t, (PredicateTransition, PrecedencePredicateTransition)):
                        raise AnalysisError("semantic predicate in parser ATN")
                    if isinstance(t, (EpsilonTransition, ActionTransition)):
                        nfa.eps[q(s)].add(q(t.target))
                    elif isinstance(t, AtomTransition):
                        sy = sym(t.label_)
                        if sy is None:
                            nfa.eps[q(s)].add(q(t.target))
                        else:
                            nfa.edge(q(s), sy, q(t.target))
                    elif isinstance(t, (SetTransition, RangeTransition)) and not isinstance(t, NotSetTransition):
                        for tt in _interval_members(t.label):
                            sy = sym(tt)
                            if sy is None:
                                nfa.eps[q(s)].add(q(t.target))
                            else:
                                nfa.edge(q(s), sy, q(t.target))
                    elif isinstance(t, (NotSetTransition, WildcardTransition)):
                        excl = set(_interval_members(t.label)) if isinstance(t, NotSetTransition) else set()
                        for tt in range(1, atn.maxTokenType + 1):
                            if tt not in excl:
                                nfa.edge(q(s), sym(tt), q(t.target))
                    else:
                        raise AnalysisError(f"ATN transition {type(t).__name__}")
                    work.append(t.target)
            return q(start), q(stop)

        a, b = inline(self.rule_index(start_rule), 0)
        return nfa, a, b

    def consumes_eof(self, rule: str) -> bool:
        """every path through the rule's own sub-automaton matches EOF last"""
        from antlr4.atn.Transition import AtomTransition
        from antlr4.Token import Token
        atn = self.patn
        ri = self.rule_index(rule)
        stop = atn.ruleToStopState[ri]
        # predecessors of stop inside this rule
        ok = True
        found = False
        for s in atn.states:
            if s is None or s.ruleIndex != ri:
                continue
            for t in s.transitions:
                if t.target is stop:
                    found = True
                    # walk back epsilon-only until a non-epsilon; simple check: the state must be reached by an EOF atom
                    preds = self._nonepsilon_preds(s, ri)
                    if not preds or not all(isinstance(p, AtomTransition) and p.label_ == Token.EOF for p in preds):
                        ok = False
        return ok and found

    def _nonepsilon_preds(self, state, ri):
        from antlr4.atn.Transition import EpsilonTransition
        atn = self.patn
        out, seen, work = [], set(), [state]
        while work:
            x = work.pop()
            if x.stateNumber in seen:
                continue
            seen.add(x.stateNumber)
            if x is atn.ruleToStartState[ri]:
                out.append(None)
            for s in atn.states:
                if s is None:
                    continue
                for t in s.transitions:
                    tgt = getattr(t, "followState", None) if type(t).__name__ == "RuleTransition" else t.target
                    if tgt is x:
                        if isinstance(t, EpsilonTransition):
                            work.append(s)
                        else:
                            out.append(t)
        return out

    # ---- lexer ATN
    def lexer_rules(self) -> dict[int, dict]:
        """token type -> {'name', 'strings' (finite set or None), 'nfa': (NFA,a,b)}; char-level"""
        from antlr4.atn.Transition import (AtomTransition, EpsilonTransition, SetTransition, RangeTransition,
                                           NotSetTransition, ActionTransition, RuleTransition)
        atn = self.latn
        if len(atn.modeToStartState) != 1:
            raise AnalysisError("lexer has more than one mode")
        if atn.lexerActions:
            raise AnalysisError("lexer has actions (skip / channel / mode): token stream is not the rule stream")
        out = {}
        for ri, start in enumerate(atn.ruleToStartState):
            tt = atn.ruleToTokenType[ri]
            stop = atn.ruleToStopState[ri]
            nfa = NFA()
            m = {}

            def q(s):
                if s.stateNumber not in m:
                    m[s.stateNumber] = nfa.new()
                return m[s.stateNumber]
            work, seen = [start], set()
            while work:
                s = work.pop()
                if s.stateNumber in seen or s is stop:
                    continue
                seen.add(s.stateNumber)
                for t in s.transitions:
                    if isinstance(t, (EpsilonTransition, ActionTransition)):
                        nfa.eps[q(s)].add(q(t.target))
                    elif isinstance(t, AtomTransition):
                        nfa.edge(q(s), chr(t.label_), q(t.target))
                    elif isinstance(t, (SetTransition, RangeTransition)) and not isinstance(t, NotSetTransition):
                        for c in _interval_members(t.label):
                            nfa.edge(q(s), chr(c), q(t.target))
                    elif isinstance(t, RuleTransition):
                        raise AnalysisError("lexer rule calls a fragment: not supported")
                    else:
                        raise AnalysisError(f"lexer ATN transition {type(t).__name__}")
                    work.append(t.target)
            a, b = q(start), q(stop)
            name = self.l_rule_names[ri] if ri < len(self.l_rule_names) else f"rule{ri}"
            out[tt] = {"name": name, "rule_index": ri, "nfa": (nfa, a, b), "strings": _finite_language(nfa, a, b)}
        return out


def _interval_members(iset):
    for iv in (iset.intervals or []):
        for x in iv:
            yield x


def _finite_language(nfa: NFA, a: int, b: int, limit: int = 64) -> Optional[set[str]]:
    """the set of strings if the NFA is acyclic and small, else None"""
    out: set[str] = set()
    stack = [(a, "", frozenset([a]))]
    steps = 0
    while stack:
        s, w, onpath = stack.pop()
        steps += 1
        if steps > 20000:
            return None
        if s == b:
            out.add(w)
            if len(out) > limit:
                return None
        for t in nfa.eps.get(s, ()):
            if t in onpath:
                return None
            stack.append((t, w, onpath | {t}))
        for sym, tg in nfa.tr.get(s, {}).items():
            for t in tg:
                if t in onpath:
                    return None
                stack.append((t, w + sym, onpath | {t}))
    return out


# --------------------------------------------------------------------------- cached front door

class Grammars:
    """everything the grammar rules need, built once per check process"""

    EBNF = "tucan/parser/tucan.ebnf"
    G4 = "tucan/parser/tucan.g4"

    def __init__(self, repo: Repo):
        self.repo = repo
        self.ebnf = parse_grammar(repo.text(self.EBNF), antlr=False)
        self.g4 = parse_grammar(repo.text(self.G4), antlr=True)
        self.ebnf_lex = {k for k in self.ebnf if k.isupper()}
        self.g4_lex = {k for k in self.g4 if k[:1].isupper()}
        self._gen = None
        self._dets: dict = {}

    @property
    def gen(self) -> Generated:
        if self._gen is None:
            self._gen = Generated(self.repo)
        return self._gen

    def check_acyclic(self):
        for nm, rules in (("ebnf", self.ebnf), ("g4", self.g4)):
            cyc = find_cycle({k: rule_refs(v) for k, v in rules.items()})
            if cyc:
                return nm, cyc
        cyc = find_cycle(self.gen.rule_graph())
        if cyc:
            return "atn", cyc
        return None

    def det(self, which: str, start: str) -> Det:
        key = (which, start)
        if key not in self._dets:
            if which == "ebnf":
                self._dets[key] = det_of(self.ebnf, start, self.ebnf_lex)
            elif which == "g4":
                self._dets[key] = det_of(self.g4, start, self.g4_lex)
            elif which == "atn":
                nfa, a, b = self.gen.parser_nfa(start, self.token_text())
                self._dets[key] = Det(nfa, a, b)
            else:
                raise KeyError(which)
        return self._dets[key]

    def token_text(self) -> dict[int, str]:
        """token type -> terminal symbol as used in the grammar automata: the literal
        text for single-string lexer rules, the lexer rule's *name* otherwise"""
        if "tt" not in self._dets:
            out = {}
            for tt, info in self.gen.lexer_rules().items():
                ss = info["strings"]
                if ss is not None and len(ss) == 1:
                    out[tt] = next(iter(ss))
                else:
                    out[tt] = info["name"]
            self._dets["tt"] = out
        return self._dets["tt"]


def grammars(ctx) -> Grammars:
    if "grammars" not in ctx.cache:
        ctx.cache["grammars"] = Grammars(ctx.repo)
    return ctx.cache["grammars"]
