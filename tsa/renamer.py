"""Consistent renaming of every local variable and every private module-level function / method / constant of the
package (behaviour unchanged by construction): the overlay used by the self-validation to show that no rule reads names
where it should read behaviour."""
import ast
import os

from .model import GENERATED


def _py_files(root):
    for dp, dn, fn in os.walk(os.path.join(root, "tucan")):
        for f in fn:
            if f.endswith(".py"):
                rel = os.path.relpath(os.path.join(dp, f), root)
                if rel not in GENERATED:
                    yield rel


def _test_imported_names(root):
    names = set()
    for dp, dn, fn in os.walk(os.path.join(root, "tests")):
        for f in fn:
            if f.endswith(".py"):
                try:
                    t = ast.parse(open(os.path.join(dp, f)).read())
                except SyntaxError:
                    continue
                for n in ast.walk(t):
                    if isinstance(n, ast.ImportFrom):
                        names |= {a.name for a in n.names}
                    if isinstance(n, ast.Attribute):
                        names.add(n.attr)
    return names

def rename_source(src, rel, private_map, mode="both"):
    tree = ast.parse(src)
    edits = []   # (lineno, col, old, new)
    # ---- locals: per function, names that are stored in the function and are not parameters / globals / nonlocals
    if mode in ("locals", "both"):
        for fn in ast.walk(tree):
            if not isinstance(fn, (ast.FunctionDef, ast.AsyncFunctionDef)):
                continue
            params = {a.arg for a in fn.args.posonlyargs + fn.args.args + fn.args.kwonlyargs} | ({fn.args.vararg.arg} if fn.args.vararg else set()) | ({fn.args.kwarg.arg} if fn.args.kwarg else set())
            own = []
            stack = list(fn.body)
            while stack:
                n = stack.pop()
                if isinstance(n, (ast.FunctionDef, ast.AsyncFunctionDef, ast.ClassDef, ast.Lambda)):
                    continue        # nested scopes are left alone (their free variables would need care)
                own.append(n)
                stack.extend(ast.iter_child_nodes(n))
            nested = any(isinstance(n, (ast.FunctionDef, ast.Lambda)) for n in ast.walk(ast.Module(fn.body, [])))
            if nested:
                continue
            declared = set()
            for n in own:
                if isinstance(n, (ast.Global, ast.Nonlocal)):
                    declared |= set(n.names)
            stored = {n.id for n in own if isinstance(n, ast.Name) and isinstance(n.ctx, (ast.Store, ast.Del))} - params - declared
            # comprehension variables live in their own scope but renaming them together is harmless
            for n in own:
                if isinstance(n, ast.Name) and n.id in stored:
                    edits.append((n.lineno, n.col_offset, n.id, n.id + "_q"))
    # ---- private module-level names
    if mode in ("privates", "both"):
        for n in ast.walk(tree):
            if isinstance(n, ast.Name) and n.id in private_map:
                edits.append((n.lineno, n.col_offset, n.id, private_map[n.id]))
            elif isinstance(n, ast.Attribute) and n.attr in private_map:
                edits.append((n.end_lineno, n.end_col_offset - len(n.attr), n.attr, private_map[n.attr]))
            elif isinstance(n, (ast.FunctionDef, ast.ClassDef)) and n.name in private_map:
                # name token follows 'def ' / 'class '
                line = src.splitlines()[n.lineno - 1]
                col = line.index(n.name, n.col_offset)
                edits.append((n.lineno, col, n.name, private_map[n.name]))
            elif isinstance(n, ast.ImportFrom):
                for a in n.names:
                    if a.name in private_map:
                        edits.append((a.lineno, a.col_offset, a.name, private_map[a.name]))
    lines = src.splitlines(keepends=True)
    seen = set()
    for ln, col, old, new in sorted(set(edits), reverse=True):
        if (ln, col) in seen:
            continue
        seen.add((ln, col))
        L = lines[ln - 1]
        # col offsets are in utf8 bytes
        b = L.encode("utf8")
        if b[col:col + len(old.encode())] != old.encode():
            continue
        lines[ln - 1] = (b[:col] + new.encode() + b[col + len(old.encode()):]).decode("utf8")
    out = "".join(lines)
    ast.parse(out)
    return out


def renamed_overlay(root: str, mode: str = "both") -> dict:
    keep = _test_imported_names(root)
    srcs = {rel: open(os.path.join(root, rel)).read() for rel in _py_files(root)}
    private_map = {}
    if mode in ("privates", "both"):
        for rel, src in srcs.items():
            t = ast.parse(src)
            for n in t.body:
                names = []
                if isinstance(n, (ast.FunctionDef, ast.ClassDef)):
                    names = [n.name]
                elif isinstance(n, ast.Assign):
                    names = [x.id for x in n.targets if isinstance(x, ast.Name)]
                elif isinstance(n, ast.AnnAssign) and isinstance(n.target, ast.Name):
                    names = [n.target.id]
                if isinstance(n, ast.ClassDef):
                    for m in n.body:
                        if isinstance(m, ast.FunctionDef) and m.name.startswith("_") and not m.name.startswith("__") and m.name not in keep:
                            private_map[m.name] = "_z" + m.name[1:]
                for nm in names:
                    if nm.startswith("_") and not nm.startswith("__") and nm not in keep:
                        private_map[nm] = "_z" + nm[1:]
    out = {}
    for rel, src in srcs.items():
        new = rename_source(src, rel, private_map, mode)
        if new != src:
            out[rel] = new
    return out


# ----------------------------------------------------------------------------------------------------------------------
# further behaviour-preserving rewrites, applied to the syntax tree (the overlay is the unparsed tree)

class _InvertIf(ast.NodeTransformer):
    """if c: A else: B   ->   if not c: B else: A     (only where both branches exist)"""
    def visit_If(self, node):
        self.generic_visit(node)
        if node.orelse and not (len(node.orelse) == 1 and isinstance(node.orelse[0], ast.If)) and not any(isinstance(x, ast.NamedExpr) for x in ast.walk(node.test)):
            return ast.copy_location(ast.If(ast.UnaryOp(ast.Not(), node.test), node.orelse, node.body), node)
        return node


class _TempReturn(ast.NodeTransformer):
    """return expr   ->   result_q = expr; return result_q"""
    def visit_FunctionDef(self, node):
        self.generic_visit(node)
        if any(isinstance(x, (ast.Yield, ast.YieldFrom)) for x in ast.walk(node)):
            return node

        def rewrite(stmts):
            out = []
            for st in stmts:
                for fld in ("body", "orelse", "finalbody"):
                    sub = getattr(st, fld, None)
                    if isinstance(sub, list) and sub and isinstance(sub[0], ast.stmt) and not isinstance(st, (ast.FunctionDef, ast.ClassDef)):
                        setattr(st, fld, rewrite(sub))
                for h in getattr(st, "handlers", []) or []:
                    h.body = rewrite(h.body)
                if isinstance(st, ast.Return) and st.value is not None and not isinstance(st.value, (ast.Name, ast.Constant)):
                    out.append(ast.copy_location(ast.Assign([ast.Name("result_q", ast.Store())], st.value), st))
                    out.append(ast.copy_location(ast.Return(ast.Name("result_q", ast.Load())), st))
                else:
                    out.append(st)
            return out
        node.body = rewrite(node.body)
        return node


class _ConstExtract(ast.NodeTransformer):
    """string literals used in function bodies (not docstrings, not parts of f-strings) become module-level constants"""
    def __init__(self):
        self.table = {}
        self.in_fn = 0
        self.skip = set()

    def visit_FunctionDef(self, node):
        if node.body and isinstance(node.body[0], ast.Expr) and isinstance(node.body[0].value, ast.Constant):
            self.skip.add(id(node.body[0].value))
        for d in node.args.defaults + node.args.kw_defaults:
            for x in ast.walk(d) if d is not None else []:
                self.skip.add(id(x))
        for a in ast.walk(node.args):
            if isinstance(a, ast.arg) and a.annotation is not None:
                for x in ast.walk(a.annotation):
                    self.skip.add(id(x))
        if node.returns is not None:
            for x in ast.walk(node.returns):
                self.skip.add(id(x))
        self.in_fn += 1
        self.generic_visit(node)
        self.in_fn -= 1
        return node

    def visit_JoinedStr(self, node):
        for v in node.values:
            if isinstance(v, ast.FormattedValue):
                self.visit(v.value)
        return node

    def visit_Match(self, node):
        return node

    def visit_AnnAssign(self, node):
        if node.value is not None:
            node.value = self.visit(node.value)
        return node

    def visit_Constant(self, node):
        if self.in_fn and isinstance(node.value, str) and len(node.value) >= 2 and id(node) not in self.skip:
            name = self.table.setdefault(node.value, f"_K_Q{len(self.table)}")
            return ast.copy_location(ast.Name(name, ast.Load()), node)
        return node


def rewritten_overlay(root: str, how: str) -> dict:
    """how in 'invert-if', 'temp-return', 'const-extract', 'reorder-defs'"""
    out = {}
    for rel in _py_files(root):
        src = open(os.path.join(root, rel)).read()
        tree = ast.parse(src)
        if how == "invert-if":
            tree = _InvertIf().visit(tree)
        elif how == "temp-return":
            tree = _TempReturn().visit(tree)
        elif how == "const-extract":
            tr = _ConstExtract()
            tree = tr.visit(tree)
            if tr.table:
                # constants go after the imports (and after the docstring / __future__ lines)
                k = 0
                for i, st in enumerate(tree.body):
                    if isinstance(st, (ast.Import, ast.ImportFrom)) or (i == 0 and isinstance(st, ast.Expr) and isinstance(st.value, ast.Constant)):
                        k = i + 1
                defs = [ast.Assign([ast.Name(n, ast.Store())], ast.Constant(v)) for v, n in tr.table.items()]
                tree.body[k:k] = defs
        elif how == "reorder-defs":
            used_at_top = {n.id for st in tree.body if not isinstance(st, (ast.FunctionDef, ast.ClassDef)) for n in ast.walk(st) if isinstance(n, ast.Name)}
            movable = [st for st in tree.body if isinstance(st, ast.FunctionDef) and st.name not in used_at_top and not st.decorator_list]
            if len(movable) > 1:
                rest = [st for st in tree.body if st not in movable]
                tree.body = rest + list(reversed(movable))
        elif how in _MORE:
            tree = _MORE[how]().visit(tree)
        else:
            raise ValueError(how)
        ast.fix_missing_locations(tree)
        new = ast.unparse(tree) + "\n"
        if ast.dump(ast.parse(new)) != ast.dump(ast.parse(src)):
            out[rel] = new
    return out


class _FStringToFormat(ast.NodeTransformer):
    """f"a{x:>3}b"  ->  "a{:>3}b".format(x)     (format specs that are plain text only)"""
    def visit_JoinedStr(self, node):
        # inner expressions first; the format specs (themselves JoinedStr nodes) are left as they are
        for p in node.values:
            if isinstance(p, ast.FormattedValue):
                p.value = self.visit(p.value)
        tmpl, args = "", []
        for p in node.values:
            if isinstance(p, ast.Constant):
                tmpl += str(p.value).replace("{", "{{").replace("}", "}}")
            else:
                spec = ""
                if p.format_spec is not None:
                    if not all(isinstance(x, ast.Constant) for x in p.format_spec.values):
                        return node
                    spec = ":" + "".join(str(x.value) for x in p.format_spec.values)
                conv = {-1: "", 115: "!s", 114: "!r", 97: "!a"}.get(p.conversion, "")
                tmpl += "{" + conv + spec + "}"
                args.append(p.value)
        return ast.copy_location(ast.Call(ast.Attribute(ast.Constant(tmpl), "format", ast.Load()), args, []), node)


class _SplitTupleAssign(ast.NodeTransformer):
    """a, b = x, y  ->  a = x; b = y     (when no target name is read on the right)"""
    def _split(self, stmts):
        out = []
        for st in stmts:
            if isinstance(st, ast.Assign) and len(st.targets) == 1 and isinstance(st.targets[0], ast.Tuple) and isinstance(st.value, ast.Tuple) \
                    and len(st.targets[0].elts) == len(st.value.elts) and all(isinstance(t, ast.Name) for t in st.targets[0].elts):
                tnames = {t.id for t in st.targets[0].elts}
                if not any(isinstance(n, ast.Name) and n.id in tnames for n in ast.walk(st.value)):
                    for t, v in zip(st.targets[0].elts, st.value.elts):
                        out.append(ast.copy_location(ast.Assign([t], v), st))
                    continue
            out.append(st)
        return out

    def generic_visit(self, node):
        super().generic_visit(node)
        for fld in ("body", "orelse", "finalbody"):
            sub = getattr(node, fld, None)
            if isinstance(sub, list) and sub and isinstance(sub[0], ast.stmt):
                setattr(node, fld, self._split(sub))
        return node


_MORE = {"fstring-to-format": _FStringToFormat, "split-tuple-assign": _SplitTupleAssign}
