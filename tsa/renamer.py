"""Consistent renaming of every local variable and every private module-level function / method / constant of the
package (behaviour unchanged by construction): the overlay used by the self-validation to show that no rule reads names
where it should read behaviour."""
import ast
import os

from .model import GENERATED


def _py_files(root):
    for dp, dn, fn in os.walk(os.path.join(root, "tucan")):
        for f in fn:
            if f.endswith(".py"):
                rel = os.path.relpath(os.path.join(dp, f), root)
                if rel not in GENERATED:
                    yield rel


def _test_imported_names(root):
    names = set()
    for dp, dn, fn in os.walk(os.path.join(root, "tests")):
        for f in fn:
            if f.endswith(".py"):
                try:
                    t = ast.parse(open(os.path.join(dp, f)).read())
                except SyntaxError:
                    continue
                for n in ast.walk(t):
                    if isinstance(n, ast.ImportFrom):
                        names |= {a.name for a in n.names}
                    if isinstance(n, ast.Attribute):
                        names.add(n.attr)
    return names

def rename_source(src, rel, private_map, mode="both"):
    tree = ast.parse(src)
    edits = []   # (lineno, col, old, new)
    # ---- locals: per function, names that are stored in the function and are not parameters / globals / nonlocals
    if mode in ("locals", "both"):
        for fn in ast.walk(tree):
            if not isinstance(fn, (ast.FunctionDef, ast.AsyncFunctionDef)):
                continue
            params = {a.arg for a in fn.args.posonlyargs + fn.args.args + fn.args.kwonlyargs} | ({fn.args.vararg.arg} if fn.args.vararg else set()) | ({fn.args.kwarg.arg} if fn.args.kwarg else set())
            own = []
            stack = list(fn.body)
            while stack:
                n = stack.pop()
                if isinstance(n, (ast.FunctionDef, ast.AsyncFunctionDef, ast.ClassDef, ast.Lambda)):
                    continue        # nested scopes are left alone (their free variables would need care)
                own.append(n)
                stack.extend(ast.iter_child_nodes(n))
            nested = any(isinstance(n, (ast.FunctionDef, ast.Lambda)) for n in ast.walk(ast.Module(fn.body, [])))
            if nested:
                continue
            declared = set()
            for n in own:
                if isinstance(n, (ast.Global, ast.Nonlocal)):
                    declared |= set(n.names)
            stored = {n.id for n in own if isinstance(n, ast.Name) and isinstance(n.ctx, (ast.Store, ast.Del))} - params - declared
            # comprehension variables live in their own scope but renaming them together is harmless
            for n in own:
                if isinstance(n, ast.Name) and n.id in stored:
                    edits.append((n.lineno, n.col_offset, n.id, n.id + "_q"))
    # ---- private module-level names
    if mode in ("privates", "both"):
        for n in ast.walk(tree):
            if isinstance(n, ast.Name) and n.id in private_map:
                edits.append((n.lineno, n.col_offset, n.id, private_map[n.id]))
            elif isinstance(n, ast.Attribute) and n.attr in private_map:
                edits.append((n.end_lineno, n.end_col_offset - len(n.attr), n.attr, private_map[n.attr]))
            elif isinstance(n, (ast.FunctionDef, ast.ClassDef)) and n.name in private_map:
                # name token follows 'def ' / 'class '
                line = src.splitlines()[n.lineno - 1]
                col = line.index(n.name, n.col_offset)
                edits.append((n.lineno, col, n.name, private_map[n.name]))
            elif isinstance(n, ast.ImportFrom):
                for a in n.names:
                    if a.name in private_map:
                        edits.append((a.lineno, a.col_offset, a.name, private_map[a.name]))
    lines = src.splitlines(keepends=True)
    seen = set()
    for ln, col, old, new in sorted(set(edits), reverse=True):
        if (ln, col) in seen:
            continue
        seen.add((ln, col))
        L = lines[ln - 1]
        # col offsets are in utf8 bytes
        b = L.encode("utf8")
        if b[col:col + len(old.encode())] != old.encode():
            continue
        lines[ln - 1] = (b[:col] + new.encode() + b[col + len(old.encode()):]).decode("utf8")
    out = "".join(lines)
    ast.parse(out)
    return out


def renamed_overlay(root: str, mode: str = "both") -> dict:
    keep = _test_imported_names(root)
    srcs = {rel: open(os.path.join(root, rel)).read() for rel in _py_files(root)}
    private_map = {}
    if mode in ("privates", "both"):
        for rel, src in srcs.items():
            t = ast.parse(src)
            for n in t.body:
                names = []
                if isinstance(n, (ast.FunctionDef, ast.ClassDef)):
                    names = [n.name]
                elif isinstance(n, ast.Assign):
                    names = [x.id for x in n.targets if isinstance(x, ast.Name)]
                elif isinstance(n, ast.AnnAssign) and isinstance(n.target, ast.Name):
                    names = [n.target.id]
                if isinstance(n, ast.ClassDef):
                    for m in n.body:
                        if isinstance(m, ast.FunctionDef) and m.name.startswith("_") and not m.name.startswith("__") and m.name not in keep:
                            private_map[m.name] = "_z" + m.name[1:]
                for nm in names:
                    if nm.startswith("_") and not nm.startswith("__") and nm not in keep:
                        private_map[nm] = "_z" + nm[1:]
    out = {}
    for rel, src in srcs.items():
        new = rename_source(src, rel, private_map, mode)
        if new != src:
            out[rel] = new
    return out
