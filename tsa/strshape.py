"""S-domain: symbolic evaluation of the serializer's string-building code into a
regular expression over literals and typed integer holes, with path forking
(abstract state is copied at every fork)."""
from __future__ import annotations

import ast
import itertools
from typing import Optional

from .model import AnalysisError, FuncInfo, NotConst, Repo, annotation_name, norm, short


class Str:
    """concatenation of pieces: ('lit', s) | ('int', lo) | ('opt', Str) | ('star', Str) | ('alt', [Str..])"""

    def __init__(self, pieces=()):
        self.p = list(pieces)

    def __add__(self, o):
        return Str(self.p + o.p)

    def __repr__(self):
        return "".join(show(x) for x in self.p) or "ε"

    def __eq__(self, o):
        return isinstance(o, Str) and repr(self) == repr(o)

    def __hash__(self):
        return hash(repr(self))


def show(x):
    k = x[0]
    if k == "lit":
        return x[1]
    if k == "int":
        return f"⟨int≥{x[1]}⟩" if x[1] is not None else "⟨int?⟩"
    if k == "opt":
        return f"[{x[1]}]"
    if k == "star":
        return f"{{{x[1]}}}*"
    if k == "alt":
        return "(" + "|".join(map(repr, x[1])) + ")"
    return "?"


def lit(s):
    return Str([("lit", s)]) if s else Str()


class Int:
    def __init__(self, lo=None, none=False):
        self.lo, self.none = lo, none     # lo: proven lower bound (None = unknown); none: may be None


class Counter_:
    """Counter over element symbols: keys ⊆ universe, counts ≥ 1"""

    _next = [0]

    def __init__(self, uni, present=(), cid=None):
        self.uni = list(uni)
        self.present = set(present)       # symbols known to be there on this path
        if cid is None:
            Counter_._next[0] += 1
            cid = Counter_._next[0]
        self.cid = cid                    # survives refinement: lists derived from this counter are refined with it


class SortedItems:
    def __init__(self, uni, presorted=False, present=()):
        self.uni = list(uni) if presorted else sorted(uni)
        self.present = set(present)       # symbols known to be there on this path


class UnsortedItems:
    def __init__(self, uni, present=()):
        self.uni = list(uni)
        self.present = set(present)


class Graph:
    pass


class SymSeq:
    """sequence of any length with one symbolic element; `asc`: known to be in ascending order of its elements"""

    def __init__(self, elem, asc=False, what=""):
        self.elem = elem
        self.asc = asc
        self.what = what


class AttrDict:
    pass


class ConstMap:
    def __init__(self, d):
        self.d = d


class ConstItems:
    def __init__(self, d):
        self.d = d


class SubSeq:
    """subsequence of a fixed list of Str; ordered=False: any permutation of the chosen items"""

    def __init__(self, items, nonempty=False, ordered=True):
        self.items, self.nonempty, self.ordered = items, nonempty, ordered


class Pair:
    def __init__(self, *items, asc=False):
        self.items = list(items)
        self.asc = asc          # items known to be in ascending order (sorted(edge))


class Opaque:
    def __init__(self, what=""):
        self.what = what


class Fixed:
    """a list whose elements (strings) are known one by one, in order: a list literal, extended by appends on this path"""

    def __init__(self, items=()):
        self.items = list(items)


class SymList:
    """a list of element symbols in a known order; a slot that is not `sure` is there iff the molecule has that element"""

    def __init__(self, slots, ordered=True, cids=()):
        self.slots = list(slots)          # [(symbol, sure)]
        self.ordered = ordered            # False: the keys of a Counter as they come (order unknown until sorted)
        self.cids = set(cids)             # the counters whose keys the unsure slots depend on


class SymPieces:
    """the texts made from the slots of a SymList, in order"""

    def __init__(self, pieces):
        self.pieces = list(pieces)        # [(Str, sure)]


class AltVal:
    """one of several values (a helper that returns different things on different paths)"""

    def __init__(self, vals):
        self.vals = list(vals)


class RecMap:
    """a map from node label to a small record {constant key: value hole}: `alts` are the records a label can have,
    () meaning the label is not in the map; which record a label gets depends on which attributes that atom carries"""

    def __init__(self, alts):
        self.alts = []
        for a in alts:
            if a not in self.alts:
                self.alts.append(a)


class RecAlt:
    """one record of a RecMap (any of the alternatives)"""

    def __init__(self, alts):
        self.alts = [a for a in alts if a != ()]


class FixedAlt:
    """a list whose exact content is one of several fixed lists"""

    def __init__(self, lists):
        self.lists = lists


class Coll:
    """list / dict of strings filled by the code under analysis (immutable value: updates rebind the variable)"""

    def __init__(self, kind, elems=(), what="", asc=False, bylabel=False, keyel=None):
        self.kind, self.elems, self.what, self.asc, self.bylabel = kind, list(elems), what, asc, bylabel
        self.keyel = keyel            # a map whose keys are texts: what a key looks like
        self.trail = ()               # what was appended on this path since the collection was empty, in order
        self.groups = None            # a list filled by a loop: the runs of texts one pass appends ([(t1, t2), ...]), else None

    def plus(self, st, **kw):
        c = Coll(self.kind, self.elems + ([st] if st not in self.elems else []), kw.get("what", self.what), kw.get("asc", self.asc), kw.get("bylabel", self.bylabel),
                 kw.get("keyel", self.keyel))
        c.trail = self.trail + (st,)
        return c

    def union(self, o):
        el = list(self.elems)
        for x in o.elems:
            if x not in el:
                el.append(x)
        ke = self.keyel if o.keyel is None else (o.keyel if self.keyel is None else join_str(self.keyel, o.keyel))
        c = Coll(self.kind, el, self.what or o.what, self.asc and o.asc, self.bylabel or o.bylabel, ke)
        c.groups = self.groups
        return c

    def elem(self):
        if not self.elems:
            return Str()
        return self.elems[0] if len(self.elems) == 1 else Str([("alt", list(self.elems))])


class KeySet:
    """a set / sequence of constant attribute keys; ordered=False: iteration order is not fixed by the code"""

    def __init__(self, keys, ordered=True):
        self.keys, self.ordered = list(keys), ordered


def nonempty_part(v: Str) -> Str:
    """the non-empty strings of `v` when `v` is  [body]  or an alternative with an empty branch (what a truth test on the
    text leaves); anything else unchanged"""
    if len(v.p) == 1 and v.p[0][0] == "opt":
        return nonempty_part(v.p[0][1])
    if len(v.p) == 1 and v.p[0][0] == "alt":
        alts = [nonempty_part(a) for a in v.p[0][1] if a.p]
        if alts:
            return alts[0] if len(alts) == 1 else Str([("alt", alts)])
    return v


def join_str(a: Str, b: Str) -> Str:
    if a == b:
        return a
    if len(b.p) >= len(a.p) and b.p[:len(a.p)] == a.p:
        rest = b.p[len(a.p):]
        return Str(a.p + ([("opt", Str(rest))] if rest else []))
    if len(a.p) >= len(b.p) and a.p[:len(b.p)] == b.p:
        return join_str(b, a)
    return Str([("alt", [a, b])])


class ShapeInterp:
    def __init__(self, repo: Repo, symbols: list[str], value_lo: Optional[int]):
        self.repo = repo
        self.symbols = symbols
        self.value_lo = value_lo          # proven lower bound of attribute values (from R-ZERO), or None
        self.cg = repo.callgraph()
        self.depth = 0
        self.notes: list[str] = []
        self.emissions: list[dict] = []     # every place where a graph-sized sequence is turned into text

    def run(self, fi: FuncInfo, args) -> Str:
        if self.depth > 8:
            raise AnalysisError("shape interpreter: call depth")
        fn = fi.node
        env = {a.arg: v for a, v in zip(fn.args.args, args)}
        self._bind_defaults(fi, env)
        outs: list[Str] = []
        self.depth += 1
        try:
            self.block(fi, fn.body, [env], outs, None)
        finally:
            self.depth -= 1
        if not outs:
            raise AnalysisError(f"shape interpreter: {fi.qualname} returns no string")
        res = None
        for o in outs:
            res = o if res is None else join_str(res, o)
        return res

    def _bind_defaults(self, fi, env):
        a = fi.node.args
        names = [x.arg for x in a.args]
        for nm, d in zip(names[len(names) - len(a.defaults):], a.defaults):
            if nm not in env:
                try:
                    env[nm] = self.ev(fi, d, {})
                except AnalysisError:
                    pass

    def run_value(self, fi: FuncInfo, args):
        """like run, for a helper that returns a list of symbols: the values of its return statements"""
        if self.depth > 8:
            raise AnalysisError("shape interpreter: call depth")
        fn = fi.node
        env = {a.arg: v for a, v in zip(fn.args.args, args)}
        outs: list = []
        self.depth += 1
        self._raw_returns = getattr(self, "_raw_returns", 0) + 1
        try:
            self.block(fi, fn.body, [env], outs, None)
        finally:
            self.depth -= 1
            self._raw_returns -= 1
        if not outs:
            raise AnalysisError(f"shape interpreter: {fi.qualname} returns nothing")
        return outs[0] if len(outs) == 1 else AltVal(outs)

    def block(self, fi, body, states, outs, loop):
        for st in body:
            nxt = []
            for env in states:
                nxt += self.stmt(fi, st, env, outs, loop)
            states = nxt
        return states

    def stmt(self, fi, st, env, outs, loop):
        if isinstance(st, ast.Expr):
            if isinstance(st.value, ast.Constant):
                return [env]
            c = st.value
            if isinstance(c, ast.Call) and isinstance(c.func, ast.Attribute) and c.func.attr == "append" and isinstance(c.func.value, ast.Name) \
                    and isinstance(env.get(c.func.value.id), Fixed) and c.args:
                env = dict(env)
                env[c.func.value.id] = Fixed(env[c.func.value.id].items + [self.tostr(self.ev(fi, c.args[0], env), fi, st)])
                return [env]
            if isinstance(c, ast.Call) and isinstance(c.func, ast.Attribute) and c.func.attr == "update" and isinstance(c.func.value, ast.Name) and len(c.args) == 1 \
                    and (isinstance(env.get(c.func.value.id), RecMap) or (isinstance(env.get(c.func.value.id), Coll) and env[c.func.value.id].kind == "map" and not env[c.func.value.id].elems)):
                new_ = self.ev(fi, c.args[0], env)
                if isinstance(new_, RecMap):
                    # dict.update: for a label present in the argument the whole record is replaced
                    old_ = env[c.func.value.id]
                    old_alts = old_.alts if isinstance(old_, RecMap) else [()]
                    if () not in old_alts:
                        old_alts = old_alts + [()]
                    res_ = []
                    for a_ in old_alts:
                        for n_ in new_.alts + [()]:
                            res_.append(n_ if n_ != () else a_)
                    env = dict(env)
                    env[c.func.value.id] = RecMap(res_)
                    return [env]
            if isinstance(c, ast.Call) and isinstance(c.func, ast.Attribute) and c.func.attr == "append" and isinstance(c.func.value, ast.Name) and loop is None \
                    and isinstance(env.get(c.func.value.id), Coll) and env[c.func.value.id].kind == "list" and not env[c.func.value.id].elems and c.args:
                # outside any loop an empty list that gets an element is an exact list
                v_ = self.ev(fi, c.args[0], env)
                if isinstance(v_, Str):
                    env = dict(env)
                    env[c.func.value.id] = Fixed([v_])
                    return [env]
            if isinstance(c, ast.Call) and isinstance(c.func, ast.Attribute) and c.func.attr in ("append", "add") and isinstance(c.func.value, ast.Name) \
                    and isinstance(env.get(c.func.value.id), Coll) and c.args:
                env = dict(env)
                env[c.func.value.id] = env[c.func.value.id].plus(self.tostr(self.ev(fi, c.args[0], env), fi, st))
                return [env]
            self.ev(fi, st.value, env)
            return [env]
        if isinstance(st, ast.Assign) and isinstance(st.targets[0], ast.Subscript) and isinstance(st.targets[0].value, ast.Call) \
                and isinstance(st.targets[0].value.func, ast.Attribute) and st.targets[0].value.func.attr == "setdefault" and isinstance(st.targets[0].value.func.value, ast.Name) \
                and len(st.targets[0].value.args) == 2 and isinstance(st.targets[0].value.args[1], ast.Dict) and not st.targets[0].value.args[1].keys:
            nm = st.targets[0].value.func.value.id
            cur = env.get(nm)
            if isinstance(cur, RecMap) or (isinstance(cur, Coll) and cur.kind == "map" and not cur.elems):
                lab = self.ev(fi, st.targets[0].value.args[0], env)
                k = self.ev(fi, st.targets[0].slice, env)
                v = self.ev(fi, st.value, env)
                kk = k[1] if isinstance(k, tuple) and k[:1] == ("key",) else (k.p[0][1] if isinstance(k, Str) and len(k.p) == 1 and k.p[0][0] == "lit" else None)
                if isinstance(lab, Int) and kk is not None and isinstance(v, Int):
                    # the label's record gains (or re-sets) one key; other labels keep what they have
                    alts = cur.alts if isinstance(cur, RecMap) else [()]
                    if () not in alts:
                        alts = alts + [()]
                    res_ = list(alts)
                    for a_ in alts:
                        res_.append(tuple(x for x in a_ if x[0] != kk) + ((kk, v),) if any(x[0] == kk for x in a_) else a_ + ((kk, v),))
                    env = dict(env)
                    env[nm] = RecMap(res_)
                    return [env]
        if isinstance(st, ast.Assign) and isinstance(st.targets[0], ast.Subscript) and isinstance(st.targets[0].value, ast.Name) \
                and isinstance(env.get(st.targets[0].value.id), Coll):
            name = st.targets[0].value.id
            k = self.ev(fi, st.targets[0].slice, env)
            v = self.tostr(self.ev(fi, st.value, env), fi, st)
            env = dict(env)
            cur_ = env[name]
            if isinstance(k, Str) and not cur_.bylabel:
                env[name] = cur_.plus(v, keyel=k if cur_.keyel is None else join_str(cur_.keyel, k))
            else:
                env[name] = cur_.plus(v, bylabel=isinstance(k, Int))
            return [env]
        if isinstance(st, ast.Assign) and isinstance(st.value, ast.IfExp) and len(st.targets) == 1 and isinstance(st.targets[0], ast.Name):
            # x = A if T else B  with values that are not texts: the two branches as two paths (as an if statement would be)
            try:
                v = self.ev(fi, st.value, env)
            except AnalysisError as ex:
                if "used as string" not in str(ex):
                    raise
                v = None
            if v is None:
                as_if = ast.If(test=st.value.test, body=[ast.Assign(targets=st.targets, value=st.value.body, lineno=st.lineno, col_offset=st.col_offset)],
                               orelse=[ast.Assign(targets=st.targets, value=st.value.orelse, lineno=st.lineno, col_offset=st.col_offset)], lineno=st.lineno, col_offset=st.col_offset)
                return self.stmt(fi, as_if, env, outs, loop)
        if isinstance(st, ast.Assign) and len(st.targets) == 1 and isinstance(st.targets[0], ast.Name) and isinstance(st.value, ast.Compare) and len(st.value.ops) == 1 \
                and isinstance(st.value.ops[0], (ast.In, ast.NotIn)) and isinstance(self._peek(fi, st.value.comparators[0], env), Counter_):
            # flag = "C" in element_counts: one path per answer, the counter refined along with it
            out = []
            for truth, e2 in self.refine(fi, st.value, env):
                e2 = dict(e2)
                e2[st.targets[0].id] = truth
                out.append(e2)
            return out
        if isinstance(st, ast.FunctionDef):
            env = dict(env)
            env[st.name] = ("localfn", st)
            return [env]
        if isinstance(st, ast.Assign):
            v = self.ev(fi, st.value, env)
            env = dict(env)
            tg = st.targets[0]
            if isinstance(tg, ast.Name):
                env[tg.id] = v
            elif isinstance(tg, ast.Tuple) and isinstance(v, Pair) and len(v.items) == len(tg.elts) and not any(isinstance(t, ast.Starred) for t in tg.elts):
                for t, x in zip(tg.elts, v.items):
                    env[t.id] = x
            elif isinstance(tg, ast.Tuple) and isinstance(v, Pair) and sum(isinstance(t, ast.Starred) for t in tg.elts) == 1 and len(v.items) >= len(tg.elts) - 1:
                k_ = next(i for i, t in enumerate(tg.elts) if isinstance(t, ast.Starred))
                n_after = len(tg.elts) - k_ - 1
                items = list(v.items)
                for t, x in zip(tg.elts[:k_], items[:k_]):
                    env[t.id] = x
                mid = items[k_:len(items) - n_after]
                env[tg.elts[k_].value.id] = Fixed(mid) if all(isinstance(x, Str) for x in mid) else Pair(*mid)
                for t, x in zip(tg.elts[k_ + 1:], items[len(items) - n_after:]):
                    env[t.id] = x
            else:
                raise AnalysisError(f"shape interpreter: assignment `{short(st)}` at {fi.loc(st)}")
            return [env]
        if isinstance(st, ast.AnnAssign):
            if st.value is not None and isinstance(st.target, ast.Name):
                env = dict(env)
                env[st.target.id] = self.ev(fi, st.value, env)
            return [env]
        if isinstance(st, ast.AugAssign):
            if not (isinstance(st.target, ast.Name) and isinstance(st.op, ast.Add)):
                raise AnalysisError(f"shape interpreter: `{short(st)}` at {fi.loc(st)}")
            env = dict(env)
            env[st.target.id] = self.tostr(self.ev(fi, st.target, env), fi, st) + self.tostr(self.ev(fi, st.value, env), fi, st)
            return [env]
        if isinstance(st, ast.Return):
            v_ = self.ev(fi, st.value, env)
            if getattr(self, "_raw_returns", 0) and isinstance(v_, (SymList, Fixed)) and self.depth >= 1 and not isinstance(v_, Str):
                outs.append(self._as_symlist(v_) or v_)
                return []
            if getattr(self, "_raw_returns", 0) and isinstance(v_, Pair):
                outs.append(v_)
                return []
            if isinstance(v_, AltVal):
                for x_ in v_.vals:
                    outs.append(self.tostr(x_, fi, st))
                return []
            outs.append(self.tostr(v_, fi, st))
            return []
        if isinstance(st, ast.Continue):
            if loop is None:
                raise AnalysisError("continue outside loop")
            loop["cont"].append(env)
            return []
        if isinstance(st, ast.Pass):
            return [env]
        if isinstance(st, ast.If):
            out = []
            for truth, e2 in self.refine(fi, st.test, env):
                out += self.block(fi, st.body if truth else st.orelse, [e2], outs, loop)
            return out
        if isinstance(st, ast.For):
            it = self.ev(fi, st.iter, env)
            if isinstance(it, tuple) and it and it[0] == "view":
                it = self.view(it[1], None)
            return self.exec_for(fi, st, it, env, outs)
        if isinstance(st, ast.Assert):
            return [env]
        if isinstance(st, ast.Match):
            from .model import desugar_match
            d = desugar_match(st)
            if d is not None:
                return self.stmt(fi, d, env, outs, loop)
        raise AnalysisError(f"shape interpreter: statement {type(st).__name__} at {fi.loc(st)} not supported")

    def _selects_first(self, fi, key) -> int:
        """1 when the sort key is `itemgetter(0)` / `lambda x: x[0]`, -1 for `lambda x: -x[0]`, else 0"""
        if isinstance(key, ast.Call) and not key.keywords and len(key.args) == 1 and isinstance(key.args[0], ast.Constant) and key.args[0].value == 0:
            r_ = self.repo.resolve_dotted(fi.module, key.func) if isinstance(key.func, (ast.Name, ast.Attribute)) else None
            return 1 if r_ and r_[0] == "ext" and r_[1] == "operator.itemgetter" else 0
        if isinstance(key, ast.Lambda) and len(key.args.args) == 1:
            body, sign = key.body, 1
            if isinstance(body, ast.UnaryOp) and isinstance(body.op, ast.USub):
                body, sign = body.operand, -1
            if isinstance(body, ast.Subscript) and isinstance(body.value, ast.Name) and body.value.id == key.args.args[0].arg \
                    and isinstance(body.slice, ast.Constant) and body.slice.value == 0:
                return sign
        return 0

    def _peek(self, fi, e, env):
        try:
            return self.ev(fi, e, env)
        except AnalysisError:
            return None

    def _key_sorted(self, fi, call, env, symbols, pairs: bool):
        """the element symbols in the order `sorted(..., key=K)` gives them: K is evaluated on every symbol with the
        sample evaluator (what it reads besides the symbol must be known on this path; a count is unknown) -> list of
        symbols, or AnalysisError when the order cannot be computed"""
        from .check import Ctx
        from .concrete import PState, _Unknown, Unsupported, UnknownValue
        from .rules.common import sample_evaluator
        kw = {k.arg: k.value for k in call.keywords}
        if set(kw) - {"key", "reverse"}:
            raise AnalysisError(f"shape interpreter: sorted(...) with {sorted(kw)} at {fi.loc(call)}")
        rev = False
        if "reverse" in kw:
            if not (isinstance(kw["reverse"], ast.Constant) and isinstance(kw["reverse"].value, bool)):
                raise AnalysisError(f"shape interpreter: sorted(..., reverse=<computed>) at {fi.loc(call)}")
            rev = kw["reverse"].value
        if getattr(self, "_pe", None) is None or self._pe[0] is not fi:
            pe, cenv = sample_evaluator(Ctx(self.repo), fi)
            self._pe = (fi, pe, cenv)
        _, pe, cenv = self._pe
        st0 = PState(dict(cenv))
        for k_, v_ in env.items():
            if isinstance(v_, bool):
                st0.env[k_] = v_
            elif isinstance(v_, Str) and len(v_.p) == 1 and v_.p[0][0] == "lit":
                st0.env[k_] = v_.p[0][1]
            elif isinstance(v_, tuple) and v_[:1] == ("key",):
                st0.env[k_] = v_[1]
            elif isinstance(v_, tuple) and v_[:1] == ("localfn",):
                continue
            else:
                st0.env[k_] = _Unknown()
        def run_stmt(node, st_):
            go, leave = pe.stmt(node, st_)
            if len(go) != 1 or leave:
                raise AnalysisError(f"shape interpreter: `{short(node)}` at {fi.loc(call)} not followed by the sample evaluator")
            return go[0]
        for k_, v_ in env.items():
            if isinstance(v_, tuple) and v_[:1] == ("localfn",):
                st0 = run_stmt(v_[1], st0)
        if "key" in kw:
            if isinstance(kw["key"], ast.Name) and kw["key"].id not in st0.env:
                # a module-level function as the key: called by name
                key_call = kw["key"]
            else:
                bind_ = ast.Assign(targets=[ast.Name(id="__key__", ctx=ast.Store())], value=kw["key"])
                ast.copy_location(bind_, call)
                ast.fix_missing_locations(bind_)
                st0 = run_stmt(bind_, st0)
                key_call = ast.Name(id="__key__", ctx=ast.Load())

        def has_unknown(x, d=0):
            if isinstance(x, _Unknown):
                return True
            if isinstance(x, (tuple, list)) and d < 4:
                return any(has_unknown(y, d + 1) for y in x)
            return False
        keys = {}
        for sym in symbols:
            arg = (sym, _Unknown()) if pairs else sym
            if "key" in kw:
                st1 = st0.fork()
                st1.env["__elem__"] = arg
                probe = ast.Call(func=key_call, args=[ast.Name(id="__elem__", ctx=ast.Load())], keywords=[])
                ast.copy_location(probe, call)
                ast.fix_missing_locations(probe)
                try:
                    outs_ = pe.ev(probe, st1)
                except (Unsupported, UnknownValue, AnalysisError) as ex:
                    raise AnalysisError(f"shape interpreter: sort key `{short(kw['key'])}` at {fi.loc(call)} not evaluated for {sym!r}: {ex}")
                vals = [v for v, _ in outs_] if isinstance(outs_, list) and outs_ and isinstance(outs_[0], tuple) and len(outs_[0]) == 2 and isinstance(outs_[0][1], PState) else [outs_]
                if len(vals) != 1 or has_unknown(vals[0]):
                    raise AnalysisError(f"shape interpreter: sort key `{short(kw['key'])}` at {fi.loc(call)} depends on more than the element symbol and flags known on this path")
                keys[sym] = vals[0]
            else:
                keys[sym] = sym
        if pe.gaps if hasattr(pe, "gaps") else False:
            pass
        try:
            return sorted(symbols, key=lambda s_: keys[s_], reverse=rev)
        except TypeError as ex:
            raise AnalysisError(f"shape interpreter: sort keys at {fi.loc(call)} are not comparable: {ex}")

    def bind(self, target, val, env):
        env = dict(env)
        if isinstance(target, ast.Name):
            env[target.id] = val
        elif isinstance(target, (ast.Tuple, ast.List)) and isinstance(val, Pair) and len(val.items) == len(target.elts):
            for t, v in zip(target.elts, val.items):
                if isinstance(t, ast.Name):
                    env[t.id] = v
        else:
            raise AnalysisError(f"shape interpreter: cannot bind `{short(target)}`")
        return env

    @staticmethod
    def accum_vars(body):
        out = {n.target.id for n in ast.walk(ast.Module(body, [])) if isinstance(n, ast.AugAssign) and isinstance(n.target, ast.Name)}
        for n in ast.walk(ast.Module(body, [])):
            if isinstance(n, ast.Call) and isinstance(n.func, ast.Attribute) and n.func.attr in ("append", "add", "update", "setdefault") and isinstance(n.func.value, ast.Name):
                out.add(n.func.value.id)
            if isinstance(n, ast.Assign) and isinstance(n.targets[0], ast.Subscript) and isinstance(n.targets[0].value, ast.Name):
                out.add(n.targets[0].value.id)
        return out

    def exec_for(self, fi, st, it, env, outs):
        accs = {a for a in self.accum_vars(st.body) if a in env}

        def merge(cur, new):
            if isinstance(new, RecMap):
                return RecMap((cur.alts if isinstance(cur, RecMap) else [()]) + new.alts)
            if isinstance(cur, Coll) and isinstance(new, Coll):
                return cur.union(new)
            return join_str(cur, new)
        if isinstance(it, (SortedItems, ConstItems, KeySet)):
            if isinstance(it, SortedItems):          # unrolled: every iteration optional (the key may be absent)
                elems = [Pair(lit(sym), Int(1)) for sym in it.uni]
            elif isinstance(it, ConstItems):          # constant table: every iteration happens, in table order
                elems = [Pair(("key", k), lit(v) if isinstance(v, str) else Opaque("const")) for k, v in it.d.items()]
            else:
                elems = [("key", k) for k in it.keys]
            # lists that are filled inside an unrolled loop over a constant table keep their exact contents: every
            # combination of iterations that append is followed as a path of its own
            exact = {a for a in accs if isinstance(env[a], Fixed) or (isinstance(env[a], Coll) and env[a].kind == "list" and not env[a].elems)}
            if exact and isinstance(it, (ConstItems, KeySet)):
                states = [dict(env, **{a: (env[a] if isinstance(env[a], Fixed) else Fixed([])) for a in exact})]
                for el in elems:
                    nxt = []
                    for st0 in states:
                        e_in = self.bind(st.target, el, st0)
                        lp = {"cont": []}
                        res = self.block(fi, st.body, [e_in], outs, lp) + lp["cont"]
                        for r in res:
                            e2 = dict(st0)
                            for a in accs:
                                e2[a] = r[a] if a in exact else merge(st0[a], r[a])
                            nxt.append(e2)
                    # identical states are merged
                    uniq, seen_ = [], set()
                    for e2 in nxt:
                        k_ = tuple((a, repr(getattr(e2[a], "items", e2[a]))) for a in sorted(accs))
                        if k_ not in seen_:
                            seen_.add(k_)
                            uniq.append(e2)
                    states = uniq
                    if len(states) > 64:
                        raise AnalysisError(f"shape interpreter: too many paths through the loop at {fi.loc(st)}")
                return states
            for el in elems:
                e_in = self.bind(st.target, el, env)
                lp = {"cont": []}
                res = self.block(fi, st.body, [e_in], outs, lp) + lp["cont"]
                env = dict(env)
                for a in accs:
                    cur = env[a]
                    if len(res) == 1 and isinstance(res[0][a], RecMap):
                        env[a] = res[0][a]            # one way through the body: what it leaves is the new value
                        continue
                    for r in res:
                        cur = merge(cur, r[a])
                    env[a] = cur
            return [env]
        if isinstance(it, Pair) and it.items and all((isinstance(x, tuple) and x[:1] == ("key",)) or (isinstance(x, Str) and len(x.p) == 1 and x.p[0][0] == "lit") for x in it.items):
            it = SymList([((x[1] if isinstance(x, tuple) else x.p[0][1]), True) for x in it.items])      # a fixed tuple of texts: every pass happens
        if isinstance(it, (SymList, Fixed)) and self._as_symlist(it) is not None and self._as_symlist(it).ordered and isinstance(st.target, ast.Name):
            # unrolled over the symbols in their order; a pass for a symbol that is there only if the molecule has it is optional
            slots_ = self._as_symlist(it).slots
            if len(slots_) <= 4:
                # a short list: every way through every pass is a path of its own (what a pass does to other variables is kept)
                states = [env]
                for sym, sure in slots_:
                    nxt = []
                    for st0 in states:
                        lp = {"cont": []}
                        res = self.block(fi, st.body, [self.bind(st.target, lit(sym), st0)], outs, lp) + lp["cont"]
                        nxt += res
                        if not sure:
                            nxt.append(st0)
                    states = nxt
                    if len(states) > 64:
                        raise AnalysisError(f"shape interpreter: too many paths through the loop at {fi.loc(st)}")
                return states
            for sym, sure in slots_:
                e_in = self.bind(st.target, lit(sym), env)
                lp = {"cont": []}
                res = self.block(fi, st.body, [e_in], outs, lp) + lp["cont"]
                if not res:
                    raise AnalysisError(f"shape interpreter: a pass of the loop at {fi.loc(st)} does not come back")
                new_env = dict(res[0]) if len(res) == 1 else dict(env)
                new_env.pop(st.target.id, None)
                if st.target.id in env:
                    new_env[st.target.id] = env[st.target.id]
                for a in accs:
                    val = res[0][a]
                    for r in res[1:]:
                        val = merge(val, r[a]) if not isinstance(val, Str) else join_str(val, r[a])
                    new_env[a] = val if sure else merge(env[a], val)
                env = new_env
            return [env]
        if isinstance(it, (SymSeq, UnsortedItems)):  # star over one symbolic iteration
            if isinstance(it, SymSeq) and any(isinstance(env[a], Str) for a in accs):
                self.emissions.append({"fi": fi, "node": st, "what": it.what, "asc": it.asc,
                                       "pair_asc": getattr(it.elem, "asc", None) if isinstance(it.elem, Pair) and it.what == "edges" else None})
            elems = [it.elem] if isinstance(it, SymSeq) else [Pair(lit(s), Int(1)) for s in it.uni]
            deltas = {a: [] for a in accs}
            for el in elems:
                e_in = self.bind(st.target, el, env)
                for a in accs:
                    if isinstance(env[a], RecMap) or (isinstance(env[a], Coll) and env[a].kind == "map" and not env[a].elems and self._fills_recmap(st, a)):
                        e_in[a] = env[a]
                        continue
                    e_in[a] = Coll(env[a].kind) if isinstance(env[a], Coll) else Str()
                lp = {"cont": []}
                res = self.block(fi, st.body, [e_in], outs, lp) + lp["cont"]
                for r in res:
                    for a in accs:
                        deltas[a].append(r[a])
            env = dict(env)
            for a in accs:
                if any(isinstance(d, RecMap) for d in deltas[a]):
                    alts = list(env[a].alts) if isinstance(env[a], RecMap) else [()]
                    for d in deltas[a]:
                        if isinstance(d, RecMap):
                            alts += d.alts
                    env[a] = RecMap(alts)
                    continue
                if isinstance(env[a], Coll):
                    c = env[a]
                    # what one pass appends, as a run: exact when the list was empty before the loop
                    runs = [d.trail for d in deltas[a] if isinstance(d, Coll) and d.trail] if (c.kind == "list" and not c.elems) else None
                    for d in deltas[a]:
                        c = c.union(d)
                    c.groups = [r_ for i_, r_ in enumerate(runs) if r_ not in runs[:i_]] if runs else None
                    # the collection is filled in the iteration order of `it`
                    c.what = getattr(it, "what", "") or c.what
                    c.asc = bool(getattr(it, "asc", False)) and not env[a].elems
                    env[a] = c
                    continue
                uniq = []
                for d in deltas[a]:
                    if d not in uniq:
                        uniq.append(d)
                env[a] = env[a] + Str([("star", Str([("alt", uniq)]) if len(uniq) != 1 else uniq[0])])
            return [env]
        raise AnalysisError(f"shape interpreter: loop over {type(it).__name__} at {fi.loc(st)}")

    @staticmethod
    def _as_symlist(v):
        if isinstance(v, SymList):
            return v
        if isinstance(v, Fixed) and all(isinstance(x, Str) and len(x.p) == 1 and x.p[0][0] == "lit" for x in v.items):
            return SymList([(x.p[0][1], True) for x in v.items])
        if isinstance(v, Coll) and v.kind == "list" and not v.elems:
            return SymList([])
        if isinstance(v, Counter_):
            return SymList([(s_, s_ in v.present) for s_ in v.uni], ordered=False, cids={v.cid})
        return None

    def _comp_over(self, fi, e, g, it, env):
        """a comprehension over a list of element symbols: filtered by membership tests, mapped to the symbol itself or to text"""
        sl = self._as_symlist(it)
        if sl is None:
            raise AnalysisError(f"shape interpreter: comprehension over {type(it).__name__} at {fi.loc(e)}")
        if not isinstance(g.target, ast.Name):
            raise AnalysisError(f"shape interpreter: comprehension target at {fi.loc(e)}")
        tv = g.target.id
        slots = list(sl.slots)
        for c in g.ifs:
            if not (isinstance(c, ast.Compare) and len(c.ops) == 1 and isinstance(c.ops[0], (ast.In, ast.NotIn)) and isinstance(c.left, ast.Name) and c.left.id == tv):
                raise AnalysisError(f"shape interpreter: filter `{short(c)}` at {fi.loc(c)}")
            other = self.ev(fi, c.comparators[0], env)
            pos = isinstance(c.ops[0], ast.In)
            if isinstance(other, Counter_):
                sl.cids = set(sl.cids) | {other.cid}
                # present in the molecule: sure if known present, dropped if outside the universe, else it depends
                if pos:
                    slots = [(s_, sure and s_ in other.present) for s_, sure in slots if s_ in other.uni]
                else:
                    slots = [(s_, False) for s_, sure in slots if s_ not in other.present]
                continue
            osl = self._as_symlist(other)
            if osl is None:
                raise AnalysisError(f"shape interpreter: membership in {type(other).__name__} at {fi.loc(c)}")
            names = {s_ for s_, _ in osl.slots}
            # a slot of the other list is there exactly when the molecule has the element: the same condition as here
            slots = [(s_, sure) for s_, sure in slots if (s_ in names) == pos]
        if isinstance(e.elt, ast.Name) and e.elt.id == tv:
            return SymList(slots, ordered=sl.ordered, cids=set(sl.cids) | set(getattr(self, "_cids_seen", set())))
        if not sl.ordered:
            raise AnalysisError(f"shape interpreter: text is made from the keys of a Counter in the order they come at {fi.loc(e)}")
        pieces = []
        for s_, sure in slots:
            cenv = dict(env)
            cenv[tv] = lit(s_)
            pieces.append((self.tostr(self.ev(fi, e.elt, cenv), fi, e), sure))
        return SymPieces(pieces)

    @staticmethod
    def _fills_recmap(loop, name) -> bool:
        for n in ast.walk(loop):
            if isinstance(n, ast.Call) and isinstance(n.func, ast.Attribute) and n.func.attr == "setdefault" and isinstance(n.func.value, ast.Name) and n.func.value.id == name:
                return True
        return False

    def refine(self, fi, test, env):
        """(truth, env') for the feasible branches"""
        if isinstance(test, ast.NamedExpr) and isinstance(test.target, ast.Name):
            env2 = dict(env)
            env2[test.target.id] = self.ev(fi, test.value, env2)      # what the value's evaluation changes (Counter.pop) is seen by the branches
            return self.refine(fi, ast.copy_location(ast.Name(test.target.id, ast.Load()), test), env2)
        if isinstance(test, ast.Name) and isinstance(env.get(test.id), bool):
            return [(env[test.id], env)]
        if isinstance(test, ast.Name) and isinstance(env.get(test.id), AltVal) and all(isinstance(v_, (Fixed, SymList)) for v_ in env[test.id].vals):
            return [(bool(v_.items if isinstance(v_, Fixed) else v_.slots), {**env, test.id: v_}) for v_ in env[test.id].vals]
        if isinstance(test, ast.Constant) and isinstance(test.value, bool):
            return [(test.value, env)]
        if isinstance(test, ast.Compare) and len(test.ops) == 1 and isinstance(test.ops[0], (ast.Is, ast.IsNot)) and isinstance(test.left, ast.Name) and test.left.id in env \
                and isinstance(test.comparators[0], ast.Constant) and test.comparators[0].value is None and not isinstance(env[test.left.id], (Int, AltVal)):
            # a parameter left at its default None / a value that is an object for sure
            return [((env[test.left.id] is None) == isinstance(test.ops[0], ast.Is), env)]
        graphs = [k for k, v_ in env.items() if isinstance(v_, Graph)]
        if graphs:
            from .rules.common import empty_graph_tests
            if any(norm(test) in empty_graph_tests(g) for g in graphs):
                # the shapes are claimed for molecules with at least one atom (the atoms of the graph are the symbols the
                # interpretation runs on); the branch for the molecule without atoms is outside that claim
                self.notes.append(f"{fi.loc(test)}: `{short(test)}`: branch for the molecule without atoms not interpreted")
                return [(False, env)]
        if isinstance(test, ast.BoolOp):
            # left to right, later operands only on the paths that reach them
            is_and = isinstance(test.op, ast.And)
            live, done = [env], []
            for v in test.values:
                nxt = []
                for e_ in live:
                    for truth, e2 in self.refine(fi, v, e_):
                        if truth == is_and:
                            nxt.append(e2)
                        else:
                            done.append((truth, e2))
                live = nxt
            return done + [(is_and, e_) for e_ in live]
        if isinstance(test, ast.Name) and test.id in env:
            v = env[test.id]
            if isinstance(v, Int):
                out = []
                lo = v.lo if (v.lo is not None and v.lo >= 1) else (1 if (v.lo is not None and v.lo >= 0) else None)
                # truthy: non-zero (and not None); for a value known >= 0 that means >= 1
                out.append((True, {**env, test.id: Int(lo if lo is not None else v.lo)}))
                if v.none or v.lo is None or v.lo <= 0:
                    out.append((False, dict(env)))
                return out
            if isinstance(v, SubSeq):
                return [(True, {**env, test.id: SubSeq(v.items, True)}), (False, {**env, test.id: SubSeq([], False)})]
            if isinstance(v, Fixed):
                return [(bool(v.items), env)]
            if isinstance(v, Str):
                return [(True, {**env, test.id: nonempty_part(v)}), (False, {**env, test.id: Str()})]
            if isinstance(v, SymSeq):
                return [(True, env), (False, env)]
        if isinstance(test, ast.UnaryOp) and isinstance(test.op, ast.Not):
            return [(not t, e) for t, e in self.refine(fi, test.operand, env)]
        if isinstance(test, ast.Compare) and len(test.ops) == 1 and isinstance(test.left, ast.Subscript) and isinstance(test.left.value, ast.Name) \
                and isinstance(test.left.slice, ast.Name) and isinstance(test.comparators[0], ast.Constant) and isinstance(test.comparators[0].value, int) \
                and isinstance(self._peek(fi, test.left, env), Int):
            # counts[symbol] > 1: the refined count is remembered under the expression's text and found again when the
            # branch reads the same expression
            key_ = "__expr__:" + norm(test.left)
            e0 = {**env, key_: self._peek(fi, test.left, env)}
            probe = ast.Compare(left=ast.Name(id=key_, ctx=ast.Load()), ops=test.ops, comparators=test.comparators)
            ast.copy_location(probe, test)
            ast.fix_missing_locations(probe)
            return self.refine(fi, probe, e0)
        if isinstance(test, ast.Compare) and len(test.ops) == 1 and isinstance(test.left, ast.Name) and test.left.id in env \
                and isinstance(test.comparators[0], ast.Constant) and isinstance(test.comparators[0].value, int):
            v = env[test.left.id]
            c = test.comparators[0].value
            op = test.ops[0]
            if isinstance(v, Int):
                if isinstance(op, ast.Gt):
                    c1 = c + 1
                elif isinstance(op, ast.GtE):
                    c1 = c
                else:
                    c1 = None
                if c1 is not None:
                    out = [(True, {**env, test.left.id: Int(max(c1, v.lo) if v.lo is not None else c1)})]
                    if v.lo is None or v.lo < c1:
                        out.append((False, {**env, test.left.id: Int(v.lo)}))
                    return out
                if isinstance(op, (ast.Eq, ast.NotEq)):
                    a, b = (True, False) if isinstance(op, ast.Eq) else (False, True)
                    res = []
                    if v.lo is None or v.lo <= c:
                        res.append((a, {**env, test.left.id: Int(c)}))
                    res.append((b, dict(env)))
                    return res
        if isinstance(test, ast.Compare) and len(test.ops) == 1 and isinstance(test.left, ast.NamedExpr) and isinstance(test.left.target, ast.Name):
            env2 = dict(env)
            env2[test.left.target.id] = self.ev(fi, test.left.value, env)
            t2 = ast.Compare(ast.Name(test.left.target.id, ast.Load()), test.ops, test.comparators)
            ast.copy_location(t2, test)
            ast.fix_missing_locations(t2)
            return self.refine(fi, t2, env2)
        if isinstance(test, ast.Compare) and len(test.ops) == 1 and isinstance(test.ops[0], (ast.In, ast.NotIn)) and isinstance(test.comparators[0], ast.Name) \
                and isinstance(env.get(test.comparators[0].id), Counter_):
            cnt = env[test.comparators[0].id]
            l_ = self.ev(fi, test.left, env)
            sym = l_.p[0][1] if isinstance(l_, Str) and len(l_.p) == 1 and l_.p[0][0] == "lit" else (l_[1] if isinstance(l_, tuple) and l_[:1] == ("key",) and isinstance(l_[1], str) else None)
            if sym is not None:
                pos = isinstance(test.ops[0], ast.In)
                out = []

                def derived(e_, there):
                    e2 = dict(e_)
                    for k_, v_ in e_.items():
                        if isinstance(v_, SymList) and cnt.cid in v_.cids:
                            e2[k_] = SymList([(s_, True if (s_ == sym and there) else sure) for s_, sure in v_.slots if not (s_ == sym and not there)], v_.ordered, v_.cids)
                    return e2
                if sym in cnt.uni:
                    out.append((pos, derived({**env, test.comparators[0].id: Counter_(cnt.uni, cnt.present | {sym}, cnt.cid)}, True)))
                if sym not in cnt.present:
                    out.append((not pos, derived({**env, test.comparators[0].id: Counter_([x for x in cnt.uni if x != sym], cnt.present, cnt.cid)}, False)))
                return out
        if isinstance(test, ast.Compare) and len(test.ops) == 1 and isinstance(test.ops[0], (ast.In, ast.NotIn)):
            return [(True, env), (False, env)]
        if isinstance(test, ast.BoolOp):
            # explore both outcomes without refinement
            return [(True, env), (False, env)]
        names_ = {x.id for x in ast.walk(test) if isinstance(x, ast.Name) and x.id in env}
        if names_ and all(isinstance(env[n_], Graph) for n_ in names_) and isinstance(test, (ast.Compare, ast.UnaryOp, ast.Call)) \
                and all(isinstance(x, (ast.Compare, ast.UnaryOp, ast.Not, ast.Call, ast.Attribute, ast.Name, ast.Constant, ast.Load, ast.cmpop, ast.operator, ast.unaryop)) for x in ast.walk(test)):
            # a question about the molecule alone (`m.number_of_edges() == 0`): both answers
            self.notes.append(f"{fi.loc(test)}: `{short(test)}` asks about the molecule alone: both branches interpreted")
            return [(True, env), (False, env)]
        if isinstance(test, ast.Call) and isinstance(test.func, ast.Name) and test.func.id not in env:
            # a yes/no question put to the molecule by a helper of the repository (`_has_node_attributes(m)`): both answers
            r_ = self.repo.resolve(fi.module, test.func.id)
            if r_ and r_[0] == "func" and annotation_name(r_[1].node.returns) == "bool" and test.args \
                    and all(isinstance(self._peek(fi, a_, env), Graph) for a_ in test.args) and not test.keywords:
                self.notes.append(f"{fi.loc(test)}: `{short(test)}` answers yes or no about the molecule: both branches interpreted")
                return [(True, env), (False, env)]
        raise AnalysisError(f"shape interpreter: branch condition `{short(test)}` at {fi.loc(test)} not understood")

    def tostr(self, v, fi=None, node=None) -> Str:
        if isinstance(v, Str):
            return v
        if isinstance(v, Int):
            return Str([("int", v.lo)])
        if isinstance(v, tuple) and v[:1] == ("key",) and isinstance(v[1], str):
            return lit(v[1])                # a module-level text constant ("/" under a name)
        where = f" at {fi.loc(node)}" if fi is not None and node is not None else ""
        raise AnalysisError(f"shape interpreter: {type(v).__name__} used as string{where}")

    def ev(self, fi, e, env):
        if isinstance(e, ast.Subscript) and isinstance(e.value, ast.Name) and isinstance(e.slice, ast.Name) and ("__expr__:" + norm(e)) in env:
            return env["__expr__:" + norm(e)]
        if isinstance(e, ast.Constant):
            if isinstance(e.value, str):
                return lit(e.value)
            if isinstance(e.value, bool) or e.value is None:
                return e.value
            if isinstance(e.value, int):
                return Int(e.value)
            return Opaque("const")
        if isinstance(e, ast.Name):
            if e.id in env:
                return env[e.id]
            try:
                v = self.repo.const(fi.module, e.id)
            except (NotConst, AnalysisError):
                if e.id in ("sorted", "list", "tuple", "str", "reversed") and self.repo.resolve(fi.module, e.id) == ("builtin", e.id):
                    return ("builtin", e.id)          # the function itself, handed to map()
                raise AnalysisError(f"shape interpreter: name {e.id} at {fi.loc(e)}")
            if isinstance(v, dict):
                return ConstMap(v)
            if isinstance(v, str):
                return ("key", v)
            if isinstance(v, int):
                return Int(v)
            return Opaque("const")
        if isinstance(e, ast.BinOp) and isinstance(e.op, ast.Add):
            a_, b_ = self.ev(fi, e.left, env), self.ev(fi, e.right, env)
            sa, sb = self._as_symlist(a_), self._as_symlist(b_)
            if sa is not None and sb is not None and (isinstance(a_, SymList) or isinstance(b_, SymList)) and not isinstance(a_, Counter_) and not isinstance(b_, Counter_):
                return SymList(sa.slots + sb.slots, ordered=sa.ordered and sb.ordered, cids=sa.cids | sb.cids)
        if isinstance(e, ast.List) and not e.elts:
            return Coll("list")
        if isinstance(e, ast.Tuple) and len(e.elts) == 2 and all(isinstance(x, ast.Call) and isinstance(x.func, ast.Name) and len(x.args) == 1 and not x.keywords for x in e.elts) \
                and [x.func.id for x in e.elts] == ["min", "max"] and norm(e.elts[0].args[0]) == norm(e.elts[1].args[0]):
            return Pair(*[self.ev(fi, x, env) for x in e.elts], asc=True)     # the two ends of an edge, smaller first
        if isinstance(e, (ast.List, ast.Tuple)) and e.elts and not any(isinstance(x, ast.Starred) for x in e.elts):
            vals = [self.ev(fi, x, env) for x in e.elts]
            if all(isinstance(v, Str) for v in vals):
                return Fixed(vals)
            if isinstance(e, ast.Tuple):
                return Pair(*vals)
        if isinstance(e, ast.Dict) and not e.keys:
            return Coll("map")
        if isinstance(e, ast.Dict) and e.keys and all(k is not None for k in e.keys):
            ks = [self.ev(fi, k, env) for k in e.keys]
            vs = [self.ev(fi, v, env) for v in e.values]
            if all((isinstance(k, tuple) and k[:1] == ("key",)) or (isinstance(k, Str) and len(k.p) == 1 and k.p[0][0] == "lit") for k in ks) and all(isinstance(v, Int) for v in vs):
                return ("rec", tuple((k[1] if isinstance(k, tuple) else k.p[0][1], v) for k, v in zip(ks, vs)))
        if isinstance(e, ast.DictComp) and len(e.generators) == 1 and not e.generators[0].ifs:
            g = e.generators[0]
            it = self.ev(fi, g.iter, env)
            if isinstance(it, SymSeq) and it.what == "nodes" and isinstance(it.elem, Pair):
                e2 = self.bind(g.target, it.elem, env)
                k, v = self.ev(fi, e.key, e2), self.ev(fi, e.value, e2)
                if isinstance(k, Int) and isinstance(v, tuple) and v[:1] == ("rec",):
                    return RecMap([v[1]])
        if isinstance(e, ast.BinOp) and isinstance(e.op, ast.BitAnd):
            a, b = self.ev(fi, e.left, env), self.ev(fi, e.right, env)
            ks = [x for x in (a, b) if isinstance(x, KeySet)]
            if ks and all(isinstance(x, (KeySet, Opaque)) or (isinstance(x, tuple) and x and x[0] == "attrkeys") for x in (a, b)):
                return KeySet(ks[0].keys, ordered=False)       # a set intersection: iteration order is not fixed
        if isinstance(e, ast.JoinedStr):
            r = Str()
            for p in e.values:
                if isinstance(p, ast.Constant):
                    r = r + lit(p.value)
                else:
                    if p.format_spec is not None:
                        raise AnalysisError(f"shape interpreter: format spec at {fi.loc(e)}")
                    r = r + self.tostr(self.ev(fi, p.value, env), fi, e)
            return r
        if isinstance(e, ast.IfExp) and isinstance(e.test, ast.Compare) and len(e.test.ops) == 1 and isinstance(e.test.ops[0], (ast.Lt, ast.LtE, ast.Gt, ast.GtE)) \
                and isinstance(e.test.left, ast.Name) and isinstance(e.test.comparators[0], ast.Name) and isinstance(e.body, ast.Tuple) and isinstance(e.orelse, ast.Tuple) \
                and len(e.body.elts) == 2 and len(e.orelse.elts) == 2 and all(isinstance(x, ast.Name) for x in e.body.elts + e.orelse.elts):
            l_, r_ = e.test.left.id, e.test.comparators[0].id
            b_, o_ = [x.id for x in e.body.elts], [x.id for x in e.orelse.elts]
            lt = isinstance(e.test.ops[0], (ast.Lt, ast.LtE))
            asc = (b_ == [l_, r_] and o_ == [r_, l_]) if lt else (b_ == [r_, l_] and o_ == [l_, r_])
            if asc and isinstance(env.get(l_), Int) and isinstance(env.get(r_), Int):
                lo = None if env[l_].lo is None or env[r_].lo is None else min(env[l_].lo, env[r_].lo)
                return Pair(Int(lo), Int(lo), asc=True)           # (smaller, larger) of two labels
        if isinstance(e, ast.IfExp):
            r = None
            for truth, e2 in self.refine(fi, e.test, env):
                v = self.tostr(self.ev(fi, e.body if truth else e.orelse, e2), fi, e)
                r = v if r is None else join_str(r, v)
            return r
        if isinstance(e, ast.BinOp) and isinstance(e.op, (ast.Add, ast.Sub)):
            a, b = self.ev(fi, e.left, env), self.ev(fi, e.right, env)
            if isinstance(e.op, ast.Sub) and isinstance(a, (SymList, Counter_)):
                # the keys that are not in the other list (a set: the order is open until it is sorted); a slot of the
                # other list is there exactly when the molecule has the element, the same condition as for the key
                sa, sb = self._as_symlist(a), self._as_symlist(b)
                if sa is not None and sb is not None:
                    names = {s_ for s_, _ in sb.slots}
                    return SymList([(s_, sure) for s_, sure in sa.slots if s_ not in names], ordered=False, cids=sa.cids | sb.cids)
            if isinstance(a, Int) and isinstance(b, Int):
                if a.lo is None or b.lo is None:
                    return Int(None)
                if isinstance(e.op, ast.Add):
                    return Int(a.lo + b.lo)
                # a - c with c a constant: lower bound shifts
                if isinstance(e.right, ast.Constant):
                    return Int(a.lo - b.lo)
                return Int(None)
            if isinstance(e.op, ast.Add):
                return self.tostr(a, fi, e) + self.tostr(b, fi, e)
        if isinstance(e, ast.Subscript):
            b = self.ev(fi, e.value, env)
            k = self.ev(fi, e.slice, env)
            if isinstance(b, tuple) and b[:2] == ("view", "nodes") and isinstance(k, Int):
                return AttrDict()          # m.nodes[label]: the atom's attribute dictionary
            if isinstance(b, Pair) and isinstance(k, Int) and k.lo is not None and -len(b.items) <= k.lo < len(b.items):
                return b.items[k.lo]
            if isinstance(b, Counter_):
                return Int(1)
            if isinstance(b, ConstMap):
                key = k[1] if isinstance(k, tuple) and k[0] == "key" else None
                if key is None or key not in b.d:
                    raise AnalysisError(f"shape interpreter: constant map lookup `{short(e)}`")
                return lit(b.d[key])
            if isinstance(b, AttrDict):
                return Int(self.value_lo)          # value hole: its bound is what R-ZERO established
            raise AnalysisError(f"shape interpreter: subscript on {type(b).__name__} at {fi.loc(e)}")
        if isinstance(e, ast.ListComp) or isinstance(e, ast.GeneratorExp):
            g = e.generators[0]
            it = self.ev(fi, g.iter, env)
            if isinstance(it, tuple) and it and it[0] == "view":
                it = self.view(it[1], None)
            if isinstance(it, ConstMap):         # (filtered) iteration over a constant map: ordered subsequence
                items = []
                for k in it.d:
                    items.append(self.tostr(self.ev(fi, e.elt, self.bind(g.target, ("key", k), env)), fi, e))
                return SubSeq(items) if g.ifs else SubSeq(items, True)
            if isinstance(it, Fixed) and self._as_symlist(it) is None and isinstance(g.target, ast.Name) and isinstance(e.elt, ast.Name) and e.elt.id == g.target.id \
                    and all(isinstance(c, ast.Name) and c.id == g.target.id for c in g.ifs):
                # the non-empty ones of a fixed list of texts, in order: any sub-list (an empty text drops out)
                return SubSeq(list(it.items), nonempty=False, ordered=True) if g.ifs else it
            if isinstance(it, SortedItems) and not g.ifs:
                # the (symbol, count) pairs in a known order; a pair is there iff the molecule has the element
                pieces_ = []
                for sym in it.uni:
                    pieces_.append((self.tostr(self.ev(fi, e.elt, self.bind(g.target, Pair(lit(sym), Int(1)), env)), fi, e), sym in it.present))
                return SymPieces(pieces_)
            src_sl = self._as_symlist(it) if isinstance(it, (SymList, Fixed, Counter_)) else None
            if isinstance(it, AltVal):
                return AltVal([self.ev(fi, e, {**env, "__alt__": v_}) if False else self._comp_over(fi, e, g, v_, env) for v_ in it.vals])
            if src_sl is not None:
                return self._comp_over(fi, e, g, it, env)
            if isinstance(it, tuple) and it and it[0] == "recitems":
                lists = []
                for rec in it[1]:
                    items = []
                    for k_, v_ in rec:
                        items.append(self.tostr(self.ev(fi, e.elt, self.bind(g.target, Pair(lit(k_), v_), env)), fi, e))
                    lists.append(items)
                return FixedAlt(lists)
            if isinstance(it, ConstItems):       # (filtered) iteration over the (key, value) pairs of a constant map
                items = []
                for k, v in it.d.items():
                    el = Pair(("key", k), lit(v) if isinstance(v, str) else Opaque("const"))
                    items.append(self.tostr(self.ev(fi, e.elt, self.bind(g.target, el, env)), fi, e))
                return SubSeq(items) if g.ifs else SubSeq(items, True)
            if isinstance(it, KeySet):
                items = []
                for k in it.keys:
                    items.append(self.tostr(self.ev(fi, e.elt, self.bind(g.target, ("key", k), env)), fi, e))
                return SubSeq(items, nonempty=False, ordered=it.ordered)
            if isinstance(it, tuple) and it and it[0] in ("attritems", "attrkeys"):
                # iteration over a node's own attribute dict, filtered by membership in a constant key table:
                # any subset of the table's keys, in the dict's (insertion) order
                table = None
                for c in g.ifs:
                    if isinstance(c, ast.Compare) and len(c.ops) == 1 and isinstance(c.ops[0], ast.In):
                        t = self.ev(fi, c.comparators[0], env)
                        if isinstance(t, ConstMap):
                            table = t
                        elif isinstance(t, KeySet):
                            table = ConstMap({k: k for k in t.keys})
                if table is None:
                    raise AnalysisError(f"shape interpreter: iteration over an attribute dict without a key-table filter at {fi.loc(e)}")
                items = []
                for k in table.d:
                    el = ("key", k) if it[0] == "attrkeys" else Pair(("key", k), Int(self.value_lo))
                    items.append(self.tostr(self.ev(fi, e.elt, self.bind(g.target, el, env)), fi, e))
                return SubSeq(items, nonempty=False, ordered=False)
            if isinstance(it, AttrDict):
                return self.ev(fi, ast.ListComp(e.elt, [ast.comprehension(g.target, ast.Call(ast.Attribute(g.iter, "keys", ast.Load()), [], []), g.ifs, 0)]), env)
            if isinstance(it, SymSeq):
                if g.ifs:
                    self.notes.append(f"filter in comprehension at {fi.loc(e)} (shape unaffected: any length)")
                envs_ = [self.bind(g.target, it.elem, env)]
                if any(isinstance(x, ast.NamedExpr) for c in g.ifs for x in ast.walk(c)):
                    # a filter that also binds a name (walrus): the element is built on the paths where it holds
                    for c in g.ifs:
                        envs_ = [e2 for e_ in envs_ for truth, e2 in self.refine(fi, c, e_) if truth]
                    if not envs_:
                        return SymSeq(Str(), asc=False, what=it.what)
                if len(envs_) > 1:
                    els_ = []
                    for e_ in envs_:
                        x_ = self.ev(fi, e.elt, e_)
                        if not isinstance(x_, Str):
                            raise AnalysisError(f"shape interpreter: filtered comprehension with non-text elements at {fi.loc(e)}")
                        if x_ not in els_:
                            els_.append(x_)
                    el = els_[0] if len(els_) == 1 else Str([("alt", els_)])
                    out = SymSeq(el, asc=False, what=it.what)
                    out.src = it
                    return out
                el = self.ev(fi, e.elt, envs_[0])
                # a comprehension keeps the order; it keeps *sortedness* only when it formats the elements (strings built from an ascending sequence)
                out = SymSeq(el, asc=False, what=it.what)
                if isinstance(el, Str):
                    out.src = it          # remember what was formatted, for the emission record at join time
                return out
            raise AnalysisError(f"shape interpreter: comprehension over {type(it).__name__} at {fi.loc(e)}")
        if isinstance(e, ast.Call):
            return self.call(fi, e, env)
        if isinstance(e, (ast.Compare, ast.BoolOp, ast.UnaryOp)):
            return Opaque("bool")
        if isinstance(e, ast.Tuple):
            if len(e.elts) == 2 and all(isinstance(x, ast.Call) and isinstance(x.func, ast.Name) and len(x.args) == 1 and not x.keywords for x in e.elts) \
                    and [x.func.id for x in e.elts] == ["min", "max"] and norm(e.elts[0].args[0]) == norm(e.elts[1].args[0]):
                return Pair(*[self.ev(fi, x, env) for x in e.elts], asc=True)     # the two ends of an edge, smaller first
            return Pair(*[self.ev(fi, x, env) for x in e.elts])
        if isinstance(e, ast.Attribute):
            r_ = self.repo.resolve_dotted(fi.module, e) if not (isinstance(e.value, ast.Name) and e.value.id in env) else None
            if r_ and r_[0] == "const":
                # a constant of another module reached through the module's name (attribute.MASS)
                return self._module_const(r_[1], r_[2], fi, e)
            b = self.ev(fi, e.value, env)
            if isinstance(b, Graph):
                return ("view", e.attr)
        raise AnalysisError(f"shape interpreter: expression {type(e).__name__} `{short(e)}` at {fi.loc(e)}")

    def _module_const(self, module, name, fi, e):
        try:
            v = self.repo.const(module, name)
        except (NotConst, AnalysisError):
            raise AnalysisError(f"shape interpreter: name {short(e)} at {fi.loc(e)}")
        if isinstance(v, dict):
            return ConstMap(v)
        if isinstance(v, str):
            return ("key", v)
        if isinstance(v, int):
            return Int(v)
        return Opaque("const")

    def call(self, fi, e, env):
        f = e.func
        name = norm(f)
        r = self.repo.resolve_dotted(fi.module, f) if isinstance(f, (ast.Name, ast.Attribute)) and not (isinstance(f, ast.Name) and f.id in env) else None
        if r and r[0] == "class":
            # a record (NamedTuple / dataclass) of the serializer: its fields in order
            args = [self.ev(fi, a, env) for a in e.args]
            if not e.keywords:
                return Pair(*args)
        if r and r[0] == "func":
            callee = r[1]
            args = [self.ev(fi, a, env) for a in e.args]
            ret = annotation_name(callee.node.returns) or ""
            rr_ = self.repo.resolve(callee.module, ret.split(".")[-1]) if ret and ret.isidentifier() else None
            if rr_ and rr_[0] == "class":
                return self.run_value(callee, args)
            if ret == "str":
                return self.run(callee, args)
            if "Graph" in ret:
                return Graph()
            if ret in ("list", "tuple"):
                return self.run_value(callee, args)
            raise AnalysisError(f"shape interpreter: call to {callee.qualname} (returns {ret or '?'}) at {fi.loc(e)}")
        if r and r[0] == "ext":
            q = r[1]
            args = [self.ev(fi, a, env) for a in e.args]
            if q == "collections.Counter":
                # Counter(nx.get_node_attributes(m, ELEMENT_SYMBOL).values()): keys are element symbols
                return Counter_(self.symbols)
            if q == "networkx.get_node_attributes":
                return ("nodeattr", args[1][1] if isinstance(args[1], tuple) else None)
            if q == "itertools.chain" and args and not e.keywords:
                sls = [self._as_symlist(a_) for a_ in args]
                if all(x is not None for x in sls) and not any(isinstance(a_, Counter_) for a_ in args):
                    out_ = sls[0]
                    for x in sls[1:]:
                        out_ = SymList(out_.slots + x.slots, ordered=out_.ordered and x.ordered, cids=out_.cids | x.cids)
                    return out_
            raise AnalysisError(f"shape interpreter: library call {q} at {fi.loc(e)}")
        if isinstance(f, ast.Name) and f.id not in env:
            args = [self.ev(fi, a, env) for a in e.args]
            if f.id == "sorted":
                if any(k.arg in ("key", "reverse") for k in e.keywords):
                    a = args[0]
                    if isinstance(a, (Counter_, SymList)) and (isinstance(a, Counter_) or not a.ordered or True):
                        sl_ = self._as_symlist(a)
                        order = self._key_sorted(fi, e, env, [s_ for s_, _ in sl_.slots], pairs=False)
                        sure = dict(sl_.slots)
                        return SymList([(s_, sure[s_]) for s_ in order], ordered=True, cids=sl_.cids)
                    if isinstance(a, (UnsortedItems, SortedItems)):
                        try:
                            return SortedItems(self._key_sorted(fi, e, env, list(a.uni), pairs=True), presorted=True, present=a.present)
                        except AnalysisError as ex:
                            self.notes.append(str(ex))
                    if isinstance(a, UnsortedItems):
                        return UnsortedItems(a.uni)       # sorted some other way: not the grammar's order for sure
                    if isinstance(a, tuple) and a and a[0] == "view":
                        a = args[0] = self.view(a[1], None)
                    if isinstance(a, SymSeq):
                        kw_ = {k.arg: k.value for k in e.keywords}
                        sel = self._selects_first(fi, kw_["key"]) if "key" in kw_ else 1
                        rev = kw_.get("reverse")
                        rev = False if rev is None else (rev.value if isinstance(rev, ast.Constant) and isinstance(rev.value, bool) else None)
                        bylabel = (isinstance(a.elem, Pair) and isinstance(a.elem.items[0], Int)) or (isinstance(a.elem, Int) and "key" not in kw_)
                        if sel and rev is not None and bylabel and not set(kw_) - {"key", "reverse"}:
                            # sorted by the label (the first component), upwards or downwards
                            return SymSeq(a.elem, asc=(sel == 1) != rev, what=a.what)
                        # some other key: whether that is ascending order of the labels is not known
                        return SymSeq(a.elem, asc=None, what=a.what)
                    if isinstance(a, Pair):
                        return Pair(*a.items, asc=False)
                a = args[0]
                if isinstance(a, tuple) and a and a[0] == "view":
                    a = args[0] = self.view(a[1], None)        # sorted(m.nodes) / sorted(m.edges): the view's elements, then sorted like any sequence
                if isinstance(a, Counter_) and not e.keywords:
                    return SymList([(s_, s_ in a.present) for s_ in sorted(a.uni)], cids={a.cid})
                if isinstance(a, (SymPieces,)):
                    raise AnalysisError(f"shape interpreter: sorted(texts) at {fi.loc(e)}")
                if isinstance(a, SymList) and not e.keywords:
                    return SymList(sorted(a.slots), ordered=True, cids=a.cids)
                if isinstance(a, UnsortedItems):
                    return SortedItems(a.uni, present=a.present)
                if isinstance(a, Coll):
                    # sorting strings is lexicographic, not by atom index
                    return SymSeq(a.elem(), asc=False, what=a.what)
                if isinstance(a, SymSeq):
                    # sorted by label only if the first component of the elements is the label itself
                    first_ = a.elem.items[0] if isinstance(a.elem, Pair) and a.elem.items else a.elem
                    if isinstance(first_, Int):
                        return SymSeq(a.elem, asc=True, what=a.what)
                    if isinstance(first_, Pair) and all(isinstance(x_, Int) for x_ in first_.items):
                        return SymSeq(a.elem, asc=True, what=a.what)
                    # texts sort character by character ("(10:" before "(9:"), not by the number they hold; anything else: not known
                    return SymSeq(a.elem, asc=False if isinstance(first_, Str) else None, what=a.what)
                if isinstance(a, Pair):
                    return Pair(*a.items, asc=True)
                if isinstance(a, SortedItems):
                    return a
                if isinstance(a, tuple) and a[0] == "view":
                    return self.view(a[1], None)
                raise AnalysisError(f"shape interpreter: sorted({type(a).__name__}) at {fi.loc(e)}")
            if f.id in ("dict", "list", "tuple", "reversed") and args:
                a = args[0]
                if f.id == "reversed" and isinstance(a, SortedItems):
                    return UnsortedItems(a.uni)
                if f.id == "reversed" and isinstance(a, SymSeq):
                    return SymSeq(a.elem, asc=False, what=a.what)
                if f.id == "reversed" and isinstance(a, Pair):
                    return Pair(*a.items[::-1], asc=False)
                if f.id in ("list", "tuple") and isinstance(a, Pair):
                    return Pair(*a.items, asc=False) if not a.asc else a
                return a
            if f.id == "str" and args:
                return self.tostr(args[0], fi, e)
            if f.id == "map" and len(args) == 2 and isinstance(args[0], tuple) and args[0][:1] == ("builtin",) and not e.keywords:
                # map(sorted, m.edges): the function applied to the symbolic element of the sequence
                seq = args[1]
                if isinstance(seq, tuple) and seq and seq[0] == "view":
                    seq = self.view(seq[1], None)
                if isinstance(seq, SymSeq):
                    el = seq.elem
                    fn_ = args[0][1]
                    if fn_ == "sorted" and isinstance(el, Pair):
                        return SymSeq(Pair(*el.items, asc=True), asc=False, what=seq.what)
                    if fn_ in ("list", "tuple") and isinstance(el, Pair):
                        return SymSeq(el, asc=False, what=seq.what)
                    if fn_ == "reversed" and isinstance(el, Pair):
                        return SymSeq(Pair(*el.items[::-1], asc=False), asc=False, what=seq.what)
            if f.id == "len":
                return Int(0)
            if f.id in ("min", "max") and len(args) == 1 and isinstance(args[0], Pair) and all(isinstance(x_, Int) for x_ in args[0].items):
                los = [x_.lo for x_ in args[0].items]
                return Int(None if any(l_ is None for l_ in los) else (min(los) if f.id == "min" else max(los)))
            raise AnalysisError(f"shape interpreter: builtin {f.id} at {fi.loc(e)}")
        if isinstance(f, ast.Attribute):
            recv = self.ev(fi, f.value, env)
            if isinstance(recv, tuple) and recv[:1] == ("key",) and isinstance(recv[1], str) and f.attr in ("join", "format"):
                recv = lit(recv[1])         # a separator kept under a module-level name
            args = [self.ev(fi, a, env) for a in e.args]
            attr = f.attr
            if isinstance(recv, Counter_):
                if attr == "pop":
                    sym = args[0]
                    s = sym.p[0][1] if isinstance(sym, Str) and len(sym.p) == 1 and sym.p[0][0] == "lit" else (sym[1] if isinstance(sym, tuple) and sym[:1] == ("key",) and isinstance(sym[1], str) else None)
                    if s is None or not isinstance(f.value, ast.Name):
                        raise AnalysisError(f"shape interpreter: Counter.pop of a non-literal at {fi.loc(e)}")
                    env[f.value.id] = Counter_([x for x in recv.uni if x != s])   # fresh object on this path
                    present = s in recv.uni
                    return Int(1, none=True) if present else Int(None, none=True)
                if attr == "items":
                    return UnsortedItems(recv.uni, recv.present)
                if attr == "keys" and not args:
                    return self._as_symlist(recv)
                if attr in ("most_common",):
                    return UnsortedItems(recv.uni)
                if attr == "get":
                    return Int(1, none=True)
            if isinstance(recv, (SortedItems, UnsortedItems)) and attr == "items":
                return recv
            if isinstance(recv, Coll) and recv.kind == "map" and attr in ("items", "values"):
                el = Pair(Int(0), recv.elem()) if attr == "items" and recv.bylabel else \
                    (Pair(recv.keyel if recv.keyel is not None else Opaque("key"), recv.elem()) if attr == "items" else recv.elem())
                return SymSeq(el, asc=False, what=recv.what or "nodes")
            if isinstance(recv, RecMap) and attr == "items":
                return SymSeq(Pair(Int(0), RecAlt(recv.alts)), asc=False, what="nodes")
            if isinstance(recv, RecMap) and attr == "values":
                return SymSeq(RecAlt(recv.alts), asc=False, what="nodes")
            if isinstance(recv, RecAlt) and attr == "items":
                return ("recitems", recv.alts)
            if isinstance(recv, ConstMap) and attr == "items":
                return ConstItems(recv.d)
            if isinstance(recv, ConstMap) and attr == "keys":
                return KeySet(list(recv.d), ordered=True)
            if isinstance(recv, AttrDict) and attr in ("items", "keys"):
                return ("attritems",) if attr == "items" else ("attrkeys",)
            if isinstance(recv, tuple) and recv and recv[0] == "nodeattr" and attr == "items":
                return SymSeq(Pair(Int(0), Int(self.value_lo)), asc=False, what="nodes")
            if isinstance(recv, tuple) and recv[0] == "nodeattr" and attr == "values":
                return ("values", recv[1])
            if isinstance(recv, Graph):
                d = None
                for k in e.keywords:
                    if k.arg == "data":
                        d = k.value
                if d is None and e.args:
                    d = e.args[0]
                return self.view(attr, d)
            if isinstance(recv, tuple) and recv[0] == "view" and recv[1] == "nodes" and attr == "items" and not args:
                return self.view("nodes", ast.Constant(True))          # m.nodes.items(): (label, attribute dict) pairs
            if isinstance(recv, Str) and attr == "format" and not e.keywords and all(p_[0] == "lit" for p_ in recv.p):
                text_ = "".join(p_[1] for p_ in recv.p)
                parts_ = text_.split("{}")
                if len(parts_) == len(args) + 1 and not any("{" in x or "}" in x for x in parts_):
                    out_ = lit(parts_[0])
                    for a_, rest_ in zip(args, parts_[1:]):
                        out_ = out_ + self.tostr(a_, fi, e) + lit(rest_)
                    return out_
            if isinstance(recv, tuple) and recv[0] == "view" and attr == "data":
                return self.view(recv[1], e.args[0] if e.args else ast.Constant(True))
            if attr == "format" and isinstance(recv, Str) and all(x[0] == "lit" for x in recv.p):
                # "..{}..".format(a, b): the same text as the f-string with the arguments in place
                import string
                tpl = "".join(x[1] for x in recv.p)
                r_, auto = Str(), 0
                for lit_, field, spec, conv in string.Formatter().parse(tpl):
                    if lit_:
                        r_ = r_ + lit(lit_)
                    if field is None:
                        continue
                    if spec or conv:
                        raise AnalysisError(f"shape interpreter: format spec at {fi.loc(e)}")
                    if field == "":
                        a_ = e.args[auto] if auto < len(e.args) else None
                        auto += 1
                    elif field.isdigit():
                        a_ = e.args[int(field)] if int(field) < len(e.args) else None
                    else:
                        a_ = next((k.value for k in e.keywords if k.arg == field), None)
                    if a_ is None:
                        raise AnalysisError(f"shape interpreter: format field `{field}` at {fi.loc(e)}")
                    r_ = r_ + self.tostr(self.ev(fi, a_, env), fi, e)
                return r_
            if attr == "join" and isinstance(recv, Str):
                a = args[0]
                if isinstance(a, SymSeq):
                    src = getattr(a, "src", None)
                    if src is None and a.what and isinstance(a.elem, Str):
                        src = a          # a sequence of ready-made strings (e.g. sorted(list_of_blocks))
                    if src is not None:
                        self.emissions.append({"fi": fi, "node": e, "what": src.what, "asc": src.asc,
                                               "pair_asc": getattr(src.elem, "asc", None) if isinstance(src.elem, Pair) and src.what == "edges" else None})
                    el = self.tostr(a.elem, fi, e)
                    return Str([("star", el)]) if not recv.p else Str([("opt", el + Str([("star", recv + el)]))])
                if isinstance(a, Fixed):
                    out_ = Str()
                    for i_, it_ in enumerate(a.items):
                        out_ = out_ + (recv if i_ else Str()) + it_
                    return out_
                if isinstance(a, AltVal):
                    alts_ = []
                    for v_ in a.vals:
                        if not isinstance(v_, SymPieces):
                            raise AnalysisError(f"shape interpreter: join over {type(v_).__name__} at {fi.loc(e)}")
                        r_ = Str()
                        for i_, (pc_, sure) in enumerate(v_.pieces):
                            one = (recv if recv.p else Str()) + pc_ if False else pc_
                            r_ = r_ + (one if sure else Str([("opt", one)]))
                        if r_ not in alts_:
                            alts_.append(r_)
                    return alts_[0] if len(alts_) == 1 else Str([("alt", alts_)])
                if isinstance(a, SymPieces):
                    if recv.p:
                        raise AnalysisError(f"shape interpreter: join of optional pieces with a separator at {fi.loc(e)}")
                    r_ = Str()
                    for pc_, sure in a.pieces:
                        r_ = r_ + (pc_ if sure else Str([("opt", pc_)]))
                    return r_
                if isinstance(a, FixedAlt):
                    alts_ = []
                    for items_ in a.lists:
                        out_ = Str()
                        for i_, it_ in enumerate(items_):
                            out_ = out_ + (recv if i_ else Str()) + it_
                        if out_ not in alts_:
                            alts_.append(out_)
                    return alts_[0] if len(alts_) == 1 else Str([("alt", alts_)])
                if isinstance(a, Coll):
                    self.emissions.append({"fi": fi, "node": e, "what": a.what, "asc": a.asc, "pair_asc": None})
                    el = a.elem()
                    if a.groups and {x_ for g_ in a.groups for x_ in g_} == set(a.elems):
                        # the texts one pass of the filling loop appends stay together, in their order
                        runs_ = []
                        for g_ in a.groups:
                            r_ = g_[0]
                            for x_ in g_[1:]:
                                r_ = r_ + recv + x_
                            if r_ not in runs_:
                                runs_.append(r_)
                        el = runs_[0] if len(runs_) == 1 else Str([("alt", runs_)])
                    return Str([("star", el)]) if not recv.p else Str([("opt", el + Str([("star", recv + el)]))])
                if isinstance(a, SubSeq):
                    alts = []
                    for n in range(1, len(a.items) + 1):
                        for comb in (itertools.combinations(a.items, n) if a.ordered else itertools.permutations(a.items, n)):
                            s = comb[0]
                            for c in comb[1:]:
                                s = s + recv + c
                            alts.append(s)
                    if not alts:
                        return Str()
                    body = Str([("alt", alts)]) if len(alts) > 1 else alts[0]
                    return body if a.nonempty else Str([("opt", body)])
            if isinstance(recv, AttrDict) and attr == "get":
                return Int(self.value_lo, none=True)
            raise AnalysisError(f"shape interpreter: method {type(recv).__name__}.{attr} at {fi.loc(e)}")
        raise AnalysisError(f"shape interpreter: call `{short(e)}` at {fi.loc(e)}")

    def view(self, attr, data):
        if attr == "edges":
            return SymSeq(Pair(Int(0), Int(0)), what="edges")          # labels are 0..n-1 after the final relabel
        if attr == "nodes":
            if data is None or (isinstance(data, ast.Constant) and data.value is False):
                return SymSeq(Int(0), what="nodes")
            if isinstance(data, ast.Constant) and data.value is True:
                return SymSeq(Pair(Int(0), AttrDict()), what="nodes")
            return SymSeq(Pair(Int(0), Int(self.value_lo)), what="nodes")
        raise AnalysisError(f"shape interpreter: graph view .{attr}")


# --------------------------------------------------------------------------- regex -> token AST


def lex_literal(s: str, literals: list[str]):
    out, i = [], 0
    while i < len(s):
        best = None
        for t in literals:
            if s.startswith(t, i) and (best is None or len(t) > len(best)):
                best = t
        if best is None:
            return None, s[i:]
        out.append(best)
        i += len(best)
    return out, None


def to_ast(st: Str, literals: list[str], number_token: str, bad: list):
    """Str -> grammar-kit AST over token symbols; adjacent literal pieces are merged before tokenising"""
    items = []
    buf = ""

    def flush():
        nonlocal buf
        if buf:
            toks, rest = lex_literal(buf, literals)
            if toks is None:
                bad.append(rest)
                items.append(("tok", f"<untokenisable {rest[:8]!r}>"))
            else:
                items.extend(("tok", t) for t in toks)
            buf = ""
    for x in st.p:
        k = x[0]
        if k == "lit":
            buf += x[1]
            continue
        flush()
        if k == "int":
            lo = x[1]
            toks = [str(d) for d in range(max(lo, 1) if lo is not None else 1, 10)] + [number_token]
            if lo is None or lo < 1:
                toks.append("⟨INT≤0⟩")
            items.append(("toks", toks))
        elif k == "opt":
            items.append(("opt", to_ast(x[1], literals, number_token, bad)))
        elif k == "star":
            items.append(("star", to_ast(x[1], literals, number_token, bad)))
        elif k == "alt":
            items.append(("alt", [to_ast(a, literals, number_token, bad) for a in x[1]]))
    flush()
    return ("cat", items)
