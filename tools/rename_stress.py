#!/venv/bin/python
"""Name-dependence stress test: lay a copy of the package over /repo in memory in which every local variable and every
private module-level function / method / constant has been renamed consistently (behaviour unchanged by construction) and
run all rules.  Any finding is a rule that reads names instead of behaviour.
usage: rename_stress.py [locals|privates|both] [-v]"""
import ast, io, os, sys, tokenize, keyword
sys.path.insert(0, "/verif")
from tsa.model import Repo, GENERATED
from tsa.check import Ctx, run_rules
from tsa.rules import REGISTRY

ROOT = os.environ.get("TUCAN_REPO", "/repo")
mode = next((a for a in sys.argv[1:] if a in ("locals", "privates", "both", "invert-if", "temp-return", "const-extract", "reorder-defs", "fstring-to-format", "split-tuple-assign")), "both")

from tsa.renamer import renamed_overlay, rewritten_overlay

def main():
    ov = renamed_overlay(ROOT, mode) if mode in ("locals", "privates", "both") else rewritten_overlay(ROOT, mode)
    ctx = Ctx(Repo(ROOT, ov))
    res = run_rules(ctx, sorted(REGISTRY))
    fired = [(r.rule, f.function, f.message[:110]) for r in res for f in r.findings]
    errs = [(r.rule, r.error[:170]) for r in res if r.error]
    print(f"mode={mode}: {len(ov)} files changed")
    print(f"findings: {len(fired)}  undecided rules: {len(errs)}")
    for x in fired[:20]: print("  FINDING", x)
    for x in errs: print("  UNDECIDED", x)
    if "--dump" in sys.argv:
        for rel, tx in ov.items():
            p = os.path.join("/tmp/rename_dump", rel); os.makedirs(os.path.dirname(p), exist_ok=True); open(p, "w").write(tx)

main()
