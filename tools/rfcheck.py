#!/venv/bin/python
"""Run every quick check against each behaviour-preserving refactoring patch (must stay silent).
usage: rfcheck.py <dir-with-r*/patch.diff> ...   prints one line per patch: silent / VIOLATION rules / ANALYSIS-ERROR"""
import glob, json, os, subprocess, sys
from concurrent.futures import ThreadPoolExecutor

def one(patch):
    p = subprocess.run(["/verif/tools/seedcheck.py", patch, "--json"], capture_output=True, text=True, cwd="/verif")
    try:
        res = json.loads(p.stdout.strip().splitlines()[-1])
    except Exception:
        return patch, "BROKEN " + (p.stdout + p.stderr)[-300:]
    viol = {k: v["rules"] for k, v in res.items() if v["exit"] == 1}
    errs = {k: v["error"][:150] for k, v in res.items() if v["exit"] == 2}
    return patch, (viol, errs)

def main():
    patches = []
    for d in sys.argv[1:]:
        patches += sorted(glob.glob(os.path.join(d, "[re]*", "patch.diff"))) if os.path.isdir(d) else [d]
    with ThreadPoolExecutor(3) as ex:
        for patch, r in ex.map(one, patches):
            name = "/".join(patch.split("/")[-3:-1])
            if isinstance(r, str):
                print(name, r); continue
            viol, errs = r
            if not viol and not errs:
                print(f"{name}: silent")
            else:
                rules = sorted({x for v in viol.values() for x in v})
                print(f"{name}: " + (f"VIOLATION {sorted(viol)} rules={rules} " if viol else "") + (f"ANALYSIS-ERROR {sorted(errs)}" if errs else ""))
                for e in sorted(set(errs.values())):
                    print("      ", e)

main()
