#!/venv/bin/python
"""dev helper (run with PYTHONPATH=<a copy of the repository>): observable behaviour of the public operations on a fixed
set of inputs, as JSON {observation name: value}.  Two trees behave alike on these inputs iff the two outputs are equal.
Not a check: it is the oracle of the mutation measurement (tools/mutrun.py), which tells mutants that change behaviour from
those that do not."""
import glob, json, os, random, re, signal, sys

ROOT = sys.argv[1] if len(sys.argv) > 1 else "/repo"
sys.path.insert(0, ROOT)
import networkx as nx
from tucan.canonicalization import canonicalize_molecule
from tucan.graph_utils import permute_molecule
from tucan.io.molfile_reader import graph_from_molfile_text
from tucan.io.molfile_writer import graph_to_molfile
from tucan.parser.parser import graph_from_tucan
from tucan.serialization import serialize_molecule

from tucan import graph_attributes as GA
# attributes are named as the library names them (its constants), so that a consistent re-spelling is no difference
NAME_OF = {v: k for k, v in vars(GA).items() if k.isupper() and isinstance(v, str)}
obs = {}


class Timeout(Exception):
    pass


def on_alarm(*a):
    raise Timeout()


signal.signal(signal.SIGALRM, on_alarm)


def guarded(name, f):
    signal.alarm(20)
    try:
        obs[name] = f()
    except Timeout:
        obs[name] = "TIMEOUT"
    except RecursionError:
        obs[name] = "EXC RecursionError"
    except Exception as e:
        obs[name] = f"EXC {type(e).__name__}" + (": " + str(e)[:100] if os.environ.get("ORACLE_MSG") else "")
    finally:
        signal.alarm(0)


def gdesc(g):
    return [sorted((n, sorted((NAME_OF.get(k, k), repr(v)) for k, v in d.items())) for n, d in g.nodes(data=True)),
            sorted((min(a, b), max(a, b), sorted((NAME_OF.get(k, k), v) for k, v in d.items())) for a, b, d in g.edges(data=True)), list(g.nodes)]


def strip_time(text):
    ls = text.split("\n")
    if len(ls) > 1:
        ls[1] = re.sub(r"\d{10}(?=3D)", "<time>", ls[1])
    return "\n".join(ls)


def pipeline(tag, text):
    def f():
        g = graph_from_molfile_text(text)
        before = gdesc(g)
        c = canonicalize_molecule(g)
        s = serialize_molecule(c)
        out = {"graph": before, "tucan": s, "canon": gdesc(c), "arg_unchanged": gdesc(g) == before}
        g2 = graph_from_tucan(s)
        out["parsed"] = gdesc(g2)
        out["fixpoint"] = serialize_molecule(canonicalize_molecule(g2))
        for seed in (0.1, 0.5):
            p = permute_molecule(g, random_seed=seed)
            out[f"perm{seed}"] = [serialize_molecule(canonicalize_molecule(p)), gdesc(p)]
        out["molfile"] = strip_time(graph_to_molfile(c))
        out["reread"] = serialize_molecule(canonicalize_molecule(graph_from_molfile_text(graph_to_molfile(c))))
        return out
    guarded(tag, f)


files = sorted(glob.glob(os.path.join(ROOT, "tests/molfiles/*/*.mol")))
random.Random(7).shuffle(files)
small = [p for p in files if os.path.getsize(p) < 6000][:70]
for p in small + sorted(glob.glob(os.path.join(ROOT, "tests/molfiles_v2000/*/*.mol"))):
    pipeline("file:" + os.path.relpath(p, ROOT), open(p).read())

V2 = """
  x

  5  4  0  0  0  0  0  0  0  0999 V2000
    0.0000    0.0000    0.0000 C   0  0  0  0  0  0  0  0  0  0  0  0
    1.0000    0.0000    0.0000 D   0  0  0  0  0  0  0  0  0  0  0  0
   -1.0000    0.0000    0.0000 T   0  0  0  0  0  0  0  0  0  0  0  0
    0.0000    1.0000    0.0000 N   0  3  0  0  0  0  0  0  0  0  0  0
    0.0000   -1.0000    0.0000 O   0  5  0  0  0  0  0  0  0  0  0  0
  1  2  1  0  0  0  0
  1  3  1  0  0  0  0
  1  4  2  0  0  0  0
  1  5  1  0  0  0  0
%s
M  END
"""
for i, props in enumerate(["", "M  CHG  1   4   1", "M  RAD  1   1   2", "M  ISO  2   1  13   2   3", "M  CHG  2   4   1   5  -1\nM  RAD  1   5   2\nM  ISO  1   4  15",
                           "M  ISO  1   1  14\nM  ISO  1   4  15", "M  CHG  1   4   0", "M  CHG  1   9   1", "G  1 2", "M  CHG  8   1   1   2   1   3   1   4   1   5   1   1   2   2   2   3   2"]):
    pipeline(f"v2000:{i}", V2.replace("%s\n", props + "\n" if props else ""))
pipeline("v2000:single-atom-no-properties", "\n  x\n\n  1  0  0  0  0  0  0  0  0  0999 V2000\n    0.0000    0.0000    0.0000 He  0  0  0  0  0  0  0  0  0  0  0  0\nM  END\n")
pipeline("v2000:noend", V2.replace("%s\nM  END\n", ""))
pipeline("v2000:short", "\n".join(V2.split("\n")[:8]))
pipeline("v2000:headerstamp", V2.replace("  x\n", "  x V3000\n").replace("%s\n", ""))

V3 = """
  x

  0  0  0     0  0            999 V3000
M  V30 BEGIN CTAB
M  V30 COUNTS %d %d 0 0 0
M  V30 BEGIN ATOM
%s
M  V30 END ATOM
M  V30 BEGIN BOND
%s
M  V30 END BOND
M  V30 END CTAB
M  END
"""


def v3(atoms, bonds, counts=None):
    a = "\n".join(f"M  V30 {i + 1} {x}" for i, x in enumerate(atoms))
    b = "\n".join(f"M  V30 {i + 1} {x}" for i, x in enumerate(bonds))
    t = V3 % (counts[0] if counts else len(atoms), counts[1] if counts else len(bonds), a, b)
    if not bonds:
        t = t.replace("M  V30 BEGIN BOND\n\nM  V30 END BOND\n", "")
    return t


pipeline("v3000:plain", v3(["C 0 0 0 0", "O 1 0 0 0", "H 0 1 0 0"], ["1 1 2", "1 1 3"]))
pipeline("v3000:attrs", v3(["C 0 0 0 0 CHG=-1 MASS=13", "N 1 0 0 0 RAD=2 CHG=1", "D 0 1 0 0", "T 0 2 0 0 MASS=5", "Cl 2 0 0 0 CHG=0 RAD=0 MASS=0"], ["1 1 2", "2 1 3", "1 1 4", "1 2 5"]))
pipeline("v3000:repeated", v3(["C 0 0 0 0 CHG=0 CHG=1 MASS=13 MASS=0", "N 1 0 0 0 RAD=2 RAD=0 CHG=1 CHG=-1", "O 2 0 0 0 MASS=17 MASS=18"], ["1 1 2", "1 2 3"]))
pipeline("v3000:nobonds", v3(["He 0 0 0 0 MASS=3"], []))
pipeline("v3000:star", v3(["C 0 0 0 0", "C 1 0 0 0", "C 2 0 0 0", "* 1 1 0 0", "Fe 1 2 0 0"], ["1 1 2", "2 2 3", "9 5 4 ENDPTS=(3 1 2 3) ATTACH=ALL"]))
pipeline("v3000:star-first", v3(["Fe 0 0 0 0", "C 1 0 0 0", "C 2 0 0 0", "* 1 1 0 0"], ["1 2 3", "9 4 1 ENDPTS=(2 2 3)"]))
pipeline("v3000:starstar", v3(["* 0 0 0 0", "* 1 0 0 0"], ["1 1 2"]))
pipeline("v3000:noendpts", v3(["C 0 0 0 0", "* 1 0 0 0"], ["1 1 2"]))
pipeline("v3000:badendpts", v3(["C 0 0 0 0", "C 1 0 0 0", "* 1 1 0 0"], ["9 3 1 ENDPTS=(3 1 2)"]))
pipeline("v3000:dash", v3(["C 0 0 0 -\nM  V30 0 CHG=1", "O 1 0 0 0"], ["1 1 -\nM  V30 2"]))
pipeline("v3000:dash-bad", v3(["C 0 0 0 -\nM  END"], []))
pipeline("v3000:regno", v3(["C 0 0 0 0"], []).replace("COUNTS 1 0 0 0 0", "COUNTS 1 0 0 0 0 REGNO=17"))
pipeline("v3000:badcounts", v3(["C 0 0 0 0"], []).replace("COUNTS", "COUNT"))
pipeline("v3000:shortcounts", v3(["C 0 0 0 0"], []).replace("COUNTS 1 0 0 0 0", "COUNTS 1"))
pipeline("v3000:wrongcount", v3(["C 0 0 0 0", "O 1 0 0 0"], ["1 1 2"], counts=(3, 1)))
pipeline("v3000:wrongbondcount", v3(["C 0 0 0 0", "O 1 0 0 0"], ["1 1 2"], counts=(2, 2)))
pipeline("v3000:badindex", v3(["C 0 0 0 0", "O 1 0 0 0"], ["1 1 3"]))
pipeline("v3000:bondtypes", v3(["C 0 0 0 0", "C 1 0 0 0", "C 2 0 0 0", "C 3 0 0 0", "C 4 0 0 0"], ["2 1 2", "3 2 3", "4 3 4", "10 4 5"]))
pipeline("v3000:spaces", v3(["C   0   0   0   0   CHG=2", "O 1 0 0 0   "], ["1   1  2"]))
pipeline("v3000:big", v3(["C 0 0 0 0"] * 12, [f"1 {i} {i + 1}" for i in range(1, 12)]))
pipeline("version:V1000", V2.replace("V2000", "V1000").replace("%s\n", ""))
pipeline("version:lower", V2.replace("V2000", "v2000").replace("%s\n", ""))
pipeline("empty", "")

# ---- V2000 with every column filled: 3-digit counts and indices, coordinates touching, dd / charge code / trailing fields
def v2000_dense():
    n = 120
    syms = ["C", "N", "O", "Cl", "Br", "D", "T", "H", "Na", "Fe"]
    atoms, bonds = [], []
    for i in range(n):
        sym = syms[i % len(syms)]
        x, y, z = -1234.5678 - i, -9999.1234 + i, (-1999.0001 - i) if i % 3 else 12345.6789
        dd = (-1, 0, 1, 2)[i % 4]
        ccc = (0, 1, 2, 3, 4, 5, 6, 7)[i % 8]
        atoms.append(f"{x:10.4f}{y:10.4f}{z:10.4f} {sym:<3}{dd:2d}{ccc:3d}  1  2  3  4  5  6  7  8  9 10 11 12"[:69])
    for i in range(1, n):
        bonds.append(f"{i:3d}{i + 1:3d}{(i % 3) + 1:3d}  1  2  3  4")
    bonds.append(f"{n:3d}{1:3d}{4:3d}  0")
    head = ["dense", "  prog", "comment", f"{n:3d}{len(bonds):3d}  0  0  1  0  0  0  0  0999 V2000"]
    return head, atoms, bonds, n


def v2000_text(head, atoms, bonds, props):
    return "\n".join(head + atoms + bonds + props + ["M  END"]) + "\n"


_h, _a, _b, _n = v2000_dense()
pipeline("v2000:dense", v2000_text(_h, _a, _b, []))
pipeline("v2000:dense-chg", v2000_text(_h, _a, _b, ["M  CHG  8 100 -15 101  15 102   1 103  -1 104   2 105  -2 106   3 107  -3", "M  CHG  2 118   4 120  -4"]))
pipeline("v2000:dense-rad", v2000_text(_h, _a, _b, ["M  RAD  3 100   1 110   2 120   3"]))
pipeline("v2000:dense-iso", v2000_text(_h, _a, _b, ["M  ISO  8   1  13   2  15   3  18   4  37   5  81   6   3   7   2   8   2", "M  ISO  3 100 300 111  14 120  57",
                                                       "M  RGP  1   1   1", "M  STY  1   1 SUP", "A   12", "xyz", "V   13 comment"]))
pipeline("v2000:dense-all", v2000_text(_h, _a, _b, ["M  ISO  1 100  11", "M  RAD  1   5   2", "M  CHG  1   9  -1", "M  ISO  1 100  12"]))
pipeline("v2000:dense-crlf", v2000_text(_h, _a, _b, ["M  RAD  1   5   2"]).replace("\n", "\r\n"))
pipeline("v2000:dense-alist", "\n".join(_h[:3] + [_h[3][:6] + "  2" + _h[3][9:]] + _a + _b + ["  1 F    2   8   7", "  2 T    1   6", "M  CHG  1   2   1", "M  END"]))
pipeline("v2000:dense-short-lines", "\n".join(_h + [x[:34] for x in _a] + [x[:9] for x in _b] + ["M  END"]))
pipeline("v2000:dense-sdf", v2000_text(_h, _a, _b, []) + "> <NAME>\nfoo\n\n$$$$\n")

# ---- direct calls of the public helpers: results and arguments
def helpers():
    from tucan.graph_utils import sort_molecule_by_attribute, attribute_sequence
    from tucan.canonicalization import partition_molecule_by_attribute, refine_partitions, assign_canonical_labels, get_number_of_partitions
    from tucan.graph_attributes import ATOMIC_NUMBER, INVARIANT_CODE, PARTITION
    g = graph_from_molfile_text(v2000_text(_h, _a[:12], _b[:11], []).replace("120120", " 12 11"))
    out = {}
    before = gdesc(g)
    srt = sort_molecule_by_attribute(g, ATOMIC_NUMBER)
    out["sorted"] = gdesc(srt)
    out["sort_arg_unchanged"] = gdesc(g) == before
    p = permute_molecule(g, random_seed=0.25)
    out["permute_arg_unchanged"] = gdesc(g) == before
    out["permuted"] = gdesc(p)
    out["permute_same_seed"] = gdesc(permute_molecule(g, random_seed=0.25)) == gdesc(p)
    part = partition_molecule_by_attribute(g, INVARIANT_CODE)
    out["partition_arg_unchanged"] = gdesc(g) == before
    out["partition"] = gdesc(part)
    ref = list(refine_partitions(part))
    out["refined"] = [gdesc(r) for r in ref]
    out["n_partitions"] = get_number_of_partitions(ref[-1])
    out["labels"] = sorted(assign_canonical_labels(ref[-1]).items())
    c = canonicalize_molecule(g)
    out["canon_arg_unchanged"] = gdesc(g) == before
    cd = gdesc(c)
    s1 = serialize_molecule(c)
    s2 = serialize_molecule(c)
    out["serialize_twice"] = [s1, s2]
    out["serialize_arg_chem_unchanged"] = [[(n, [kv for kv in d if kv[0] != "EXPLORED"]) for n, d in gdesc(c)[0]], gdesc(c)[1]] == [[(n, [kv for kv in d if kv[0] != "EXPLORED"]) for n, d in cd[0]], cd[1]]
    out["attribute_sequence"] = [attribute_sequence(c, a, PARTITION) for a in list(c)[:5]]
    return out
guarded("helpers", helpers)

# ---- writer: extreme values, long lines, missing attributes, coordinates
def writer_probe():
    g = nx.Graph()
    vals = [dict(chg=15), dict(chg=-15), dict(chg=16), dict(chg=-16), dict(chg=1, rad=1, mass=1), dict(rad=3), dict(rad=4), dict(rad=0), dict(mass=300), dict(mass=0),
            dict(chg=0), dict(chg=-1, rad=2, mass=13)]
    nm = {"chg": GA.CHG, "rad": GA.RAD, "mass": GA.MASS}
    for i, v in enumerate(vals):
        g.add_node(i, **{GA.ELEMENT_SYMBOL: ("C", "Cl", "Fe")[i % 3], GA.ATOMIC_NUMBER: (6, 17, 26)[i % 3], GA.PARTITION: 0,
                         GA.X_COORD: 123456789.123456 * (1 if i % 2 else -1) if i < 4 else 0.1234564 + i, GA.Y_COORD: -98765432.654321 if i < 4 else -1.5e-7,
                         GA.Z_COORD: 1e6 + i if i < 4 else float(i)}, **{nm[k]: x for k, x in v.items()})
    for i in range(len(vals) - 1):
        g.add_edge(i, i + 1, **{GA.BOND_TYPE: (i % 10) + 1})
    g.add_edge(0, 5)
    t = graph_to_molfile(g)
    out = {"text": strip_time(t), "maxlen": max(len(l) for l in t.split("\n"))}
    back = graph_from_molfile_text(t)
    out["back"] = gdesc(back)
    h = nx.Graph()
    h.add_node(0, **{GA.ELEMENT_SYMBOL: "He", GA.ATOMIC_NUMBER: 2, GA.PARTITION: 0})
    out["bare"] = strip_time(graph_to_molfile(h))
    out["calc"] = [l.split()[:4] + l.split()[7:] for l in graph_to_molfile(back, calc_coordinates=True).split("\n") if l.startswith("M  V30") and len(l.split()) > 6]
    return out
guarded("writer", writer_probe)

# ---- V3000: keyword order, unknown keywords, index gaps, continuation at many places
_v3x = v3(["C 0.5 -1.25 3 0 MASS=13 CFG=1 CHG=-2 VAL=3 RAD=2 ATTCHPT=1", "N 1 0 0 7 RAD=1", "O 1 1 1 0 CHG=1 MASS=18", "Cl 2 0 0 0 CLASS=x RGROUPS=(1 2)", "D 0 0 0 0 CHG=1", "T 0 0 0 0 RAD=3"],
          ["1 1 2 CFG=1", "2 2 3 TOPO=1", "4 3 4", "1 4 5 RXCTR=1 STBOX=0", "1 5 6 DISP=COORD"])
pipeline("v3000:keywords", _v3x)
_gap = _v3x
for a_, b_ in (("M  V30 1 C", "M  V30 10 C"), ("M  V30 2 N", "M  V30 20 N"), ("M  V30 3 O", "M  V30 5 O"), ("M  V30 4 Cl", "M  V30 4 Cl"), ("M  V30 5 D", "M  V30 99 D"), ("M  V30 6 T", "M  V30 1 T")):
    _gap = _gap.replace(a_, b_, 1)
_gap = _gap.replace("M  V30 1 1 1 2 CFG=1", "M  V30 7 1 10 20 CFG=1").replace("M  V30 2 2 2 3 TOPO=1", "M  V30 8 2 20 5 TOPO=1").replace("M  V30 3 4 3 4", "M  V30 1 4 5 4") \
    .replace("M  V30 4 1 4 5 RXCTR=1 STBOX=0", "M  V30 2 1 4 99 RXCTR=1 STBOX=0").replace("M  V30 5 1 5 6 DISP=COORD", "M  V30 3 1 99 1 DISP=COORD")
pipeline("v3000:indexgaps", _gap)
for cut in (12, 15, 20, 28, 33, 41, 50):
    ls = _v3x.split("\n")
    k = next(i for i, l in enumerate(ls) if l.startswith("M  V30 1 C"))
    if cut < len(ls[k]):
        ls[k:k + 1] = [ls[k][:cut] + "-", "M  V30 " + ls[k][cut:]]
    pipeline(f"v3000:cut{cut}", "\n".join(ls))
ls = _v3x.split("\n")
k = next(i for i, l in enumerate(ls) if l.startswith("M  V30 1 C"))
ls[k:k + 1] = [ls[k][:20] + "-", "M  V30 " + ls[k][20:30] + "-", "M  V30 " + ls[k][30:]]
pipeline("v3000:cut-twice", "\n".join(ls))
pipeline("v3000:crlf", _v3x.replace("\n", "\r\n"))
pipeline("v3000:tabs", _v3x.replace("M  V30 2 N 1 0 0 7 RAD=1", "M  V30 2 N  1  0   0 7   RAD=1  "))
pipeline("v3000:sgroup", _v3x.replace("M  V30 END BOND", "M  V30 END BOND\nM  V30 BEGIN SGROUP\nM  V30 1 SUP 0 ATOMS=(1 1)\nM  V30 END SGROUP"))
pipeline("v3000:header", _v3x.replace("\n  x\n", "title V2000\n  x  V2000\n", 1))
pipeline("v3000:lowercase-kw", _v3x.replace("MASS=13", "mass=13"))
pipeline("v3000:mass-in-middle", _v3x.replace("CLASS=x", "XMASS=5 MASSX=4 CHGX=1"))

TUCANS = ["/", "CH4/(1-2)(1-3)(1-4)(1-5)", "C2H6O/(1-7)(2-7)(3-8)(4-8)(5-8)(6-9)(7-8)(7-9)", "ClH/(1-2)", "H2O/(1-3)(2-3)/(1:mass=2)(2:mass=3)",
          "C2H6O/(1-7)(2-7)/(7:mass=13,rad=2)(9:rad=3)", "He//(1:mass=3)", "BrClFI/", "C12H26/(1-27)(2-38)(10-11)", "CClH/", "HCl/", "CH4/(1-1)", "CH4/(1-9)", "CH4/(0-1)",
          "CH4//(1:mass=2,mass=3)", "CH4//(9:mass=2)", "CH4//(1:chg=1)", "CH4//(1:mass=0)", "C1H4/", "CH4", "CH4/ ", " CH4/", "CH4/(1-2)(1-2)", "CH4/(2-1)", "Xx/", "C2/(1-2)/(1:rad=2)(2:rad=2)",
          "CH4/(1-2)/", "H2/(1-2)", "ClNa/(1-2)/(1:mass=37)", "CHNaO3/(1-2)", "C10H8/(1-9)(2-10)(9-10)(11-12)", "C2H6O/(9-7)(7-2)(7-1)/(9:rad=3)(7:rad=2,mass=13)",
          "C2H6O/(1-7)(1-7)(7-1)", "C2H2/(1-3)(2-4)(3-4)", "CHCl3/(1-2)(2-3)(2-4)(2-5)", "B10H14/(1-2)", "Cl2/(1-2)", "C2H6O/(1-7)/(7:mass=13)(7:rad=2)", "C2H6O//(1:mass=2)(2:mass=2)(9:mass=17)",
          "C20H42/(1-21)(20-62)(21-22)(41-42)", "CH4/(1-2)(3-4)/(5:mass=14)", "CH4//(1:rad=1)", "CH4//(1:mass=1000)", "CH4/(1-5)\n", "CH4/(1-5);", "ch4/", "C H4/", "CH4/(1 - 5)", "CH4/(1-5)/(1:mass =2)",
          "CH4/(1-5)/(1:mass=2;rad=1)", "CH4/(1-5)/(1:MASS=2)", "CH4/(1-5)//", "CH4/()", "CH4//()", "CH4/(1-5)(", "CH04/", "C01H4/", "CH4/(01-5)", "CH4/(1-5)/(1:mass=02)", "C0/", "HC/", "H4C/", "OH2/", "H2O2/(1-3)(2-4)(3-4)",
          "HNaO/(1-3)(2-3)", "NaHO/", "CHNaO3/", "CNaHO3/", "UUo/", "Uuo/", "Og/", "D2O/", "T/", "CD4/"]
for t in TUCANS:
    def f(t=t):
        g = graph_from_tucan(t)
        return [gdesc(g), serialize_molecule(canonicalize_molecule(g))]
    guarded("parse:" + t, f)

# hand-made graphs: labels not 0..n-1 in order, extra attributes
def handmade():
    g = graph_from_tucan("C2H6O/(1-7)(2-7)(3-8)(4-8)(5-8)(6-9)(7-8)(7-9)")
    g2 = nx.relabel_nodes(g, {n: (n * 7) % 9 for n in g.nodes})
    return [serialize_molecule(canonicalize_molecule(g2)), gdesc(permute_molecule(g, random_seed=0.3))]
guarded("handmade", handmade)

json.dump(obs, sys.stdout, sort_keys=True)
