#!/venv/bin/python
"""dev helper: run every variant against the rules it names (or, for silent variants, all implemented rules)"""
import sys, os, time
sys.path.insert(0, "/verif")
from concurrent.futures import ProcessPoolExecutor
from tsa.variants import V, apply
from tsa.model import Repo, AnalysisError
from tsa.check import Ctx, run_rules
from tsa.rules import REGISTRY

def one(name):
    v = next(x for x in V if x.name == name)
    ov = apply("/repo", v)
    if ov is None: return name, "SKIP(anchor)", []
    ctx = Ctx(Repo("/repo", ov))
    for k, val in v.env.items(): ctx.cache[k] = val
    rules = sorted(REGISTRY) if v.silent else sorted(r for r in v.fires if r in REGISTRY)
    res = run_rules(ctx, rules)
    fired = sorted({r.rule for r in res if r.findings})
    errs = [f"{r.rule}:{r.error[:80]}" for r in res if r.error]
    if v.silent:
        ok = not fired and not errs
    else:
        ok = set(fired) == {r for r in v.fires if r in REGISTRY} and not errs
    det = [f"{f.rule}:{f.function}:{f.construct[:60]}" for r in res for f in r.findings][:4]
    return name, ("ok" if ok else "MISMATCH") + f" fired={fired} want={'silent' if v.silent else sorted(v.fires)} errs={errs}", det

if __name__ == "__main__":
    names = [v.name for v in V if not sys.argv[1:] or any(a in v.name for a in sys.argv[1:])]
    t = time.time()
    with ProcessPoolExecutor(16) as ex:
        for name, status, det in ex.map(one, names):
            print(f"{name:40s} {status}")
            if "MISMATCH" in status:
                for d in det: print("      ", d)
    print(f"{len(names)} variants in {time.time()-t:.1f}s")
