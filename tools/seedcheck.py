#!/venv/bin/python
"""Run every quick check against a patched scratch worktree of /repo (never /repo itself).
usage: seedcheck.py <patch.diff> [--in-repo]     (--in-repo: apply to /repo, run, undo - the way the brief prescribes)"""
import json, os, subprocess, sys, tempfile, shutil
from concurrent.futures import ThreadPoolExecutor

PROPS = [f"C{i:02d}" for i in range(1, 17)]

def run(prop, root):
    env = dict(os.environ, TUCAN_REPO=root)
    p = subprocess.run(["/venv/bin/python", "-m", "tsa.check", prop, "--no-evidence"], cwd="/verif", env=env, capture_output=True, text=True)
    fired = sorted({l.split("]")[0].strip()[1:] for l in p.stdout.splitlines() if l.strip().startswith("[R-")})
    err = [l for l in p.stdout.splitlines() if "ANALYSIS-ERROR" in l]
    return prop, p.returncode, fired, err[-1][:200] if err else ""

def main():
    patch = os.path.abspath(sys.argv[1])
    in_repo = "--in-repo" in sys.argv
    if in_repo:
        root = "/repo"
        subprocess.run(["git", "-C", "/repo", "apply", patch], check=True)
    else:
        root = tempfile.mkdtemp(prefix="seedchk_", dir="/tmp")
        os.rmdir(root)
        subprocess.run(["git", "-C", "/repo", "worktree", "add", "-q", "--detach", root, "HEAD"], check=True)
        subprocess.run(["git", "-C", root, "apply", patch], check=True)
    try:
        with ThreadPoolExecutor(16) as ex:
            rows = list(ex.map(lambda p: run(p, root), PROPS))
    finally:
        if in_repo:
            subprocess.run(["git", "-C", "/repo", "checkout", "--", "."], check=True)
        else:
            subprocess.run(["git", "-C", "/repo", "worktree", "remove", "--force", root], check=True)
    out = {}
    for prop, rc, fired, err in rows:
        tag = {0: "ok", 1: "VIOLATION", 2: "ANALYSIS-ERROR"}.get(rc, str(rc))
        out[prop] = {"exit": rc, "rules": fired, "error": err}
        if rc:
            print(f"{prop}: {tag} {fired} {err}")
    print("detected by:", [p for p, v in out.items() if v["exit"] == 1] or "NOTHING", "| analysis errors:", [p for p, v in out.items() if v["exit"] == 2])
    if "--json" in sys.argv:
        print(json.dumps(out))

if __name__ == "__main__":
    main()
