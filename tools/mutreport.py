#!/venv/bin/python
"""dev helper: summary of a mutation measurement (tools/mutrun.py output)."""
import json, sys, collections
rs = [json.loads(l) for l in open(sys.argv[1])]
surv = [r for r in rs if r.get("survives")]
print(f"{len(rs)} mutants, {len(rs) - len(surv)} fail the test-suite, {len(surv)} pass it")
def cls(r):
    st = r.get("static", {})
    return "VIOLATION" if st.get("fired") else ("undecided" if st.get("undecided") else "silent")
tab = collections.Counter((bool(r.get("differs")), cls(r)) for r in surv)
for k in sorted(tab): print(("behaviour differs" if k[0] else "no difference seen"), k[1], tab[k])
if "-v" in sys.argv:
    want = sys.argv[sys.argv.index("-v") + 1] if len(sys.argv) > sys.argv.index("-v") + 1 else ""
    for r in surv:
        tag = ("D" if r.get("differs") else "N") + cls(r)[0]
        if want and tag != want: continue
        st = r.get("static", {})
        print(f"{tag} {r['id']} {r['file']}:{r['line']} {r['op']} {r['old']!r} -> {r['new'][:50]!r} | kinds={r.get('diff_kinds')} n={len(r.get('differs', []))} | fired={st.get('fired')} und={st.get('undecided')} {r.get('error','')}")
        if "-m" in sys.argv:
            for m in st.get("messages", []): print("      ", m)
