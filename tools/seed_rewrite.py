#!/venv/bin/python
"""Do the checks still report the seeded changes when the changed tree is additionally rewritten without changing its
behaviour (all locals and private names renamed, literals moved to constants, f-strings to format calls, returns through
temporaries)?  A report that disappears under such a rewrite was resting on a name or a spelling.
usage: seed_rewrite.py [name-fragment ...]"""
import glob, json, os, subprocess, sys, tempfile
sys.path.insert(0, "/verif")
from concurrent.futures import ProcessPoolExecutor

HOWS = ["renamed:both", "rewritten:const-extract", "rewritten:fstring-to-format", "rewritten:temp-return", "rewritten:invert-if"]

def one(d):
    from tsa.model import Repo
    from tsa.check import Ctx, decide
    from tsa.renamer import renamed_overlay, rewritten_overlay
    meta = json.load(open(os.path.join(d, "meta.json")))
    prop = meta["breaks_property"]
    props = meta.get("detected_by_properties") or [prop]
    if prop not in props:
        prop = props[0] if props else prop
    wt = tempfile.mkdtemp(prefix="seedrw_", dir="/tmp"); os.rmdir(wt)
    subprocess.run(["git", "-C", "/repo", "worktree", "add", "-q", "--detach", wt, "HEAD"], check=True)
    out = {}
    try:
        subprocess.run(["git", "-C", wt, "apply", os.path.join(d, "patch.diff")], check=True)
        for how in [None] + HOWS:
            try:
                if how is None:
                    ov = {}
                elif how.startswith("renamed:"):
                    ov = renamed_overlay(wt, how.split(":", 1)[1])
                else:
                    ov = rewritten_overlay(wt, how.split(":", 1)[1])
                repo = Repo(wt, ov)
                ctx = Ctx(repo, "quick")
                _, results, violations, hits = decide(prop, "quick", repo=repo, ctx=ctx)
                errs = [r.rule for r in results if r.error]
                out[how or "plain"] = ("VIOLATION" if violations else ("undecided" if errs else "silent"), sorted({f.rule for f in violations}), errs)
            except Exception as e:
                out[how or "plain"] = ("error", [], [f"{type(e).__name__}: {str(e)[:120]}"])
    finally:
        subprocess.run(["git", "-C", "/repo", "worktree", "remove", "--force", wt], check=True)
    return meta["id"], prop, out

if __name__ == "__main__":
    dirs = [d for d in sorted(glob.glob("/verif/seeded/*/")) if not sys.argv[1:] or any(a in d for a in sys.argv[1:])]
    lost = 0
    with ProcessPoolExecutor(8) as ex:
        for mid, prop, out in ex.map(one, dirs):
            base = out.get("plain", ("?",))[0]
            bad = {k: v for k, v in out.items() if k != "plain" and base == "VIOLATION" and v[0] != "VIOLATION"}
            lost += bool(bad)
            print(f"{mid:10s} {prop} plain={base:10s} " + ("all rewrites still reported" if not bad else "LOST under " + "; ".join(f"{k}: {v[0]} {v[2][:2]}" for k, v in bad.items())))
    print(f"{len(dirs)} seeded changes, {lost} lose their report under some rewrite")
