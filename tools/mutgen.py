#!/venv/bin/python
"""dev helper: single-edit mutants of the hand-written tucan sources (classic mutation operators), as text replacements
that keep the rest of the file byte for byte.  Used to measure the checks both ways: a mutant that passes the test-suite and
changes behaviour should be reported, one that changes nothing must not be.
usage: mutgen.py [--root /repo] > mutants.jsonl   (one JSON object per line: id, file, start, end, new, op, line, old)"""
import ast, json, os, sys

FILES = ["tucan/canonicalization.py", "tucan/graph_utils.py", "tucan/serialization.py", "tucan/io/molfile_reader.py",
         "tucan/io/molfile_v2000_reader.py", "tucan/io/molfile_v3000_reader.py", "tucan/io/molfile_writer.py", "tucan/parser/parser.py",
         "tucan/element_attributes.py", "tucan/graph_attributes.py"]

CMP = {ast.Eq: ["!="], ast.NotEq: ["=="], ast.Lt: ["<=", ">"], ast.LtE: ["<", ">="], ast.Gt: [">=", "<"], ast.GtE: [">", "<="],
       ast.In: ["not in"], ast.NotIn: ["in"], ast.Is: ["is not"], ast.IsNot: ["is"]}
CMP_TXT = {ast.Eq: "==", ast.NotEq: "!=", ast.Lt: "<", ast.LtE: "<=", ast.Gt: ">", ast.GtE: ">=", ast.In: "in", ast.NotIn: "not in", ast.Is: "is", ast.IsNot: "is not"}
METHOD_SWAP = {"append": "appendleft", "appendleft": "append", "popleft": "pop", "pop": "popleft", "extendleft": "extend", "extend": "extendleft",
               "startswith": "endswith", "rstrip": "lstrip", "strip": "rstrip", "items": "values", "min": "max", "max": "min",
               "setdefault": "get", "update": "setdefault", "add": "discard", "lower": "upper", "upper": "lower"}
NAME_SWAP = {"min": "max", "max": "min", "sorted": "list", "any": "all", "all": "any", "reversed": "list", "int": "float", "set": "list", "tuple": "list"}


class Offsets:
    def __init__(self, text):
        self.text = text
        self.starts = [0]
        for ln in text.split("\n"):
            self.starts.append(self.starts[-1] + len(ln.encode()) + 1)
        self.bytes = text.encode()

    def at(self, lineno, col):
        return self.starts[lineno - 1] + col

    def span(self, node):
        return self.at(node.lineno, node.col_offset), self.at(node.end_lineno, node.end_col_offset)

    def seg(self, a, b):
        return self.bytes[a:b].decode()


def mutants_of(rel, text):
    tree = ast.parse(text)
    off = Offsets(text)
    out = []
    parents = {}
    for n in ast.walk(tree):
        for c in ast.iter_child_nodes(n):
            parents[c] = n
    docstrings = set()
    for n in ast.walk(tree):
        if isinstance(n, (ast.FunctionDef, ast.ClassDef, ast.Module)) and n.body and isinstance(n.body[0], ast.Expr) and isinstance(n.body[0].value, ast.Constant) \
                and isinstance(n.body[0].value.value, str):
            docstrings.add(n.body[0].value)
    data_table = rel.endswith("element_attributes.py")

    def add(a, b, new, op, node):
        old = off.seg(a, b)
        if old != new:
            out.append({"file": rel, "start": a, "end": b, "new": new, "op": op, "line": node.lineno, "old": old[:80]})

    def in_annotation(n):
        p = n
        while p in parents:
            q = parents[p]
            if isinstance(q, ast.arg) and q.annotation is p:
                return True
            if isinstance(q, ast.AnnAssign) and q.annotation is p:
                return True
            if isinstance(q, ast.FunctionDef) and q.returns is p:
                return True
            p = q
        return False

    def in_raise(n):
        p = n
        while p in parents:
            p = parents[p]
            if isinstance(p, ast.Raise):
                return True
        return False
    for n in ast.walk(tree):
        if in_annotation(n):
            continue
        if isinstance(n, ast.Compare):
            left = n.left
            for op, comp in zip(n.ops, n.comparators):
                a = off.at(left.end_lineno, left.end_col_offset)
                b = off.at(comp.lineno, comp.col_offset)
                between = off.seg(a, b)
                txt = CMP_TXT[type(op)]
                if txt in between and between.count(txt) == 1 or (txt in ("<", ">", "in", "is") and between.strip() == txt):
                    for new in CMP[type(op)]:
                        add(a, b, between.replace(txt, new, 1) if between.strip() != txt else between.replace(txt, new), "cmp", n)
                left = comp
        elif isinstance(n, ast.BoolOp):
            for v1, v2 in zip(n.values, n.values[1:]):
                a = off.at(v1.end_lineno, v1.end_col_offset)
                b = off.at(v2.lineno, v2.col_offset)
                between = off.seg(a, b)
                w, nw = ("and", "or") if isinstance(n.op, ast.And) else ("or", "and")
                if between.split().count(w) == 1 and "#" not in between:
                    add(a, b, between.replace(w, nw, 1), "boolop", n)
        elif isinstance(n, ast.Constant) and n not in docstrings and not in_raise(n):
            a, b = off.span(n)
            if isinstance(n.value, bool):
                add(a, b, str(not n.value), "bool", n)
            elif isinstance(n.value, int) and not data_table:
                if abs(n.value) <= 1000:
                    add(a, b, str(n.value + 1), "int+1", n)
                    if n.value != 0 or not isinstance(parents.get(n), ast.Slice):
                        add(a, b, str(n.value - 1), "int-1", n)
            elif isinstance(n.value, str) and not data_table and 0 < len(n.value) <= 16 and not isinstance(parents.get(n), ast.JoinedStr):
                seg = off.seg(a, b)
                if seg[:1] in "\"'" and seg[:3] not in ('"""', "'''") and "\\" not in seg:
                    q = seg[0]
                    add(a, b, q + n.value[:-1] + q, "str-cut", n)
                    if n.value.strip() and n.value.upper() != n.value.lower():
                        add(a, b, q + n.value.swapcase() + q, "str-case", n)
        elif isinstance(n, ast.UnaryOp) and isinstance(n.op, ast.Not):
            a, b = off.span(n)
            oa, ob = off.span(n.operand)
            add(a, b, "(" + off.seg(oa, ob) + ")", "not-removed", n)
        elif isinstance(n, ast.BinOp) and isinstance(n.op, (ast.Add, ast.Sub)):
            a = off.at(n.left.end_lineno, n.left.end_col_offset)
            b = off.at(n.right.lineno, n.right.col_offset)
            between = off.seg(a, b)
            w, nw = ("+", "-") if isinstance(n.op, ast.Add) else ("-", "+")
            if between.count(w) == 1 and "#" not in between and not in_raise(n):
                add(a, b, between.replace(w, nw), "arith", n)
        elif isinstance(n, ast.IfExp):
            a, b = off.span(n)
            ba, bb = off.span(n.body)
            ta, tb = off.span(n.test)
            ea, eb = off.span(n.orelse)
            add(a, b, f"({off.seg(ea, eb)}) if ({off.seg(ta, tb)}) else ({off.seg(ba, bb)})", "ifexp-swap", n)
        elif isinstance(n, ast.Call):
            if isinstance(n.func, ast.Attribute) and n.func.attr in METHOD_SWAP:
                b = off.at(n.func.end_lineno, n.func.end_col_offset)
                a = b - len(n.func.attr)
                if off.seg(a, b) == n.func.attr:
                    add(a, b, METHOD_SWAP[n.func.attr], "method", n)
            if isinstance(n.func, ast.Name) and n.func.id in NAME_SWAP:
                a, b = off.span(n.func)
                add(a, b, NAME_SWAP[n.func.id], "builtin", n)
            if isinstance(n.func, ast.Attribute) and n.func.attr in ("copy", "strip", "rstrip", "lstrip") and not n.args and not n.keywords:
                a, b = off.span(n)
                ra, rb = off.span(n.func.value)
                add(a, b, off.seg(ra, rb), "call-dropped:" + n.func.attr, n)
            if len(n.args) == 2 and not n.keywords and not isinstance(n.args[0], ast.Starred) and not isinstance(n.args[1], ast.Starred) and not in_raise(n):
                a0, b0 = off.span(n.args[0])
                a1, b1 = off.span(n.args[1])
                s0, s1 = off.seg(a0, b0), off.seg(a1, b1)
                if s0 != s1:
                    add(a0, b1, s1 + off.seg(b0, a1) + s0, "args-swapped", n)
            for k in n.keywords:
                if k.arg == "key":
                    # sort without its key
                    ka = off.at(k.value.lineno, k.value.col_offset) - len("key=")
                    kb = off.at(k.value.end_lineno, k.value.end_col_offset)
                    if off.seg(ka, kb).startswith("key="):
                        add(ka, kb, "key=None", "key-dropped", n)
        elif isinstance(n, ast.Slice):
            for part, nm in ((n.lower, "lower"), (n.upper, "upper")):
                if part is not None and not (isinstance(part, ast.Constant)):
                    a, b = off.span(part)
                    add(a, b, f"({off.seg(a, b)}) + 1", f"slice-{nm}+1", part)
                    add(a, b, f"({off.seg(a, b)}) - 1", f"slice-{nm}-1", part)
        elif isinstance(n, ast.Subscript) and not isinstance(n.slice, (ast.Slice, ast.Constant, ast.Tuple)) and isinstance(n.ctx, ast.Load) and isinstance(n.slice, (ast.BinOp,)):
            a, b = off.span(n.slice)
            add(a, b, f"({off.seg(a, b)}) + 1", "index+1", n)
        elif isinstance(n, ast.stmt):
            a, b = off.span(n)
            if isinstance(n, ast.Expr) and isinstance(n.value, ast.Call):
                add(a, b, "pass", "stmt-deleted", n)
            elif isinstance(n, (ast.Assign, ast.AugAssign)) and isinstance(parents.get(n), (ast.For, ast.While, ast.If)) :
                if isinstance(n, ast.AugAssign) or isinstance(n.targets[0], ast.Subscript):
                    add(a, b, "pass", "stmt-deleted", n)
            elif isinstance(n, ast.Continue):
                add(a, b, "pass", "continue-dropped", n)
            elif isinstance(n, ast.Break):
                add(a, b, "continue", "break->continue", n)
            elif isinstance(n, ast.Raise) and isinstance(parents.get(n), ast.If) and len(parents[n].body) == 1 and not parents[n].orelse:
                add(a, b, "pass", "raise-dropped", n)
            elif isinstance(n, ast.Return) and n.value is not None and isinstance(n.value, (ast.List, ast.Dict, ast.Tuple)) and getattr(n.value, "elts", getattr(n.value, "keys", None)):
                pass
            elif isinstance(n, ast.If) and not isinstance(n.test, ast.UnaryOp):
                ta, tb = off.span(n.test)
                add(ta, tb, f"not ({off.seg(ta, tb)})", "if-negated", n)
    return out


def mutants2_of(rel, text):
    """second set: a name used where another local of the same function was meant, a whole `if` dropped, a sort turned
    round, a range cut short, an element dropped from a tuple / list display"""
    import re
    tree = ast.parse(text)
    off = Offsets(text)
    out = []

    def add(a, b, new, op, node):
        old = off.seg(a, b)
        if old != new:
            out.append({"file": rel, "start": a, "end": b, "new": new, "op": op, "line": node.lineno, "old": old[:80]})
    if rel.endswith(("element_attributes.py", "graph_attributes.py")):
        return out

    def kind_of(name):
        parts = name.strip("_").split("_")
        return parts[-1] if len(parts) > 1 else ""
    for fn in [n for n in ast.walk(tree) if isinstance(n, (ast.FunctionDef,))]:
        own = [n for n in ast.walk(fn)]
        stores = {}
        for n in own:
            if isinstance(n, ast.Name) and isinstance(n.ctx, ast.Store):
                stores.setdefault(n.id, n.lineno)
        for a in fn.args.args + fn.args.kwonlyargs:
            stores.setdefault(a.arg, fn.lineno)
        names = sorted(stores)
        for n in own:
            if isinstance(n, ast.Name) and isinstance(n.ctx, ast.Load) and n.id in stores:
                for other in names:
                    if other == n.id or other in ("self", "cls"):
                        continue
                    same_kind = kind_of(other) and kind_of(other) == kind_of(n.id)
                    numbered = re.sub(r"\d+", "#", other) == re.sub(r"\d+", "#", n.id)
                    if (same_kind or numbered) and stores[other] <= n.lineno:
                        a_, b_ = off.span(n)
                        add(a_, b_, other, "name-swap", n)
            elif isinstance(n, ast.If) and not n.orelse and n is not fn:
                a_, b_ = off.span(n)
                add(a_, b_, "pass", "if-dropped", n)
            elif isinstance(n, ast.Call) and isinstance(n.func, ast.Name) and n.func.id == "sorted":
                rv = next((k for k in n.keywords if k.arg == "reverse"), None)
                if rv is None:
                    b_ = off.at(n.end_lineno, n.end_col_offset) - 1
                    inner = off.seg(off.at(n.lineno, n.col_offset), b_).rstrip()
                    sep = "" if inner.endswith(",") else ", "
                    add(b_, b_ + 1, sep + "reverse=True)", "sort-reversed", n)
                elif isinstance(rv.value, ast.Constant):
                    a_, b_ = off.span(rv.value)
                    add(a_, b_, str(not rv.value.value), "sort-reversed", n)
            elif isinstance(n, ast.Call) and isinstance(n.func, ast.Name) and n.func.id == "range" and n.args:
                a_, b_ = off.span(n.args[-1] if len(n.args) < 3 else n.args[1])
                add(a_, b_, f"({off.seg(a_, b_)}) - 1", "range-short", n)
                if len(n.args) == 1:
                    add(a_, a_, "1, ", "range-from-1", n)
            elif isinstance(n, (ast.Tuple, ast.List)) and isinstance(n.ctx, ast.Load) and 2 <= len(n.elts) <= 4 and not any(isinstance(e, ast.Starred) for e in n.elts):
                e0, e1 = n.elts[-2], n.elts[-1]
                a_ = off.at(e0.end_lineno, e0.end_col_offset)
                b_ = off.at(e1.end_lineno, e1.end_col_offset)
                add(a_, b_, "", "element-dropped", n)
            elif isinstance(n, ast.Call) and isinstance(n.func, ast.Attribute) and n.func.attr == "split" and len(n.args) == 1 and isinstance(n.args[0], ast.Constant) and n.args[0].value == " ":
                a_, b_ = off.span(n.args[0])
                add(a_, b_, "", "split-any-blank", n)
    # the same statement can be reached through nested functions twice
    seen, uniq = set(), []
    for m in out:
        k = (m["start"], m["end"], m["new"])
        if k not in seen:
            seen.add(k)
            uniq.append(m)
    return uniq


def apply(text, m):
    b = text.encode()
    return (b[:m["start"]] + m["new"].encode() + b[m["end"]:]).decode()


def main():
    root = sys.argv[sys.argv.index("--root") + 1] if "--root" in sys.argv else "/repo"
    only = sys.argv[sys.argv.index("--files") + 1].split(",") if "--files" in sys.argv else None
    i = 0
    for rel in FILES:
        if only is not None and rel not in only:
            continue
        text = open(os.path.join(root, rel)).read()
        second = "--second" in sys.argv
        for m in (mutants2_of(rel, text) if second else mutants_of(rel, text)):
            new_text = apply(text, m)
            try:
                compile(new_text, rel, "exec")
            except SyntaxError:
                continue
            m["id"] = f"{'N' if second else 'M'}{i:04d}"
            i += 1
            print(json.dumps(m))


if __name__ == "__main__":
    main()
