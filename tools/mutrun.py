#!/venv/bin/python
"""dev helper: the mutation measurement.  For every mutant of tools/mutgen.py, in a scratch copy of the repository under
/tmp/mut (removed at the end): (A) does the repository's test-suite still pass, (B) if so, does the observable behaviour on
the oracle inputs (tools/mut_oracle.py) differ from the clean tree's, (C) what do the rules say when the mutated file is
laid over /repo in memory.  Writes one JSON line per mutant to the file given with --out.
usage: mutrun.py --mutants /tmp/mut/mutants.jsonl --out /tmp/mut/results.jsonl [--only M0001,M0002] [--skip-tests]"""
import json, multiprocessing as mp, os, shutil, subprocess, sys, time
sys.path.insert(0, "/verif")
sys.path.insert(0, "/verif/tools")
from mutgen import apply

WORK = "/tmp/mut"
ENVK = {"PYTHONDONTWRITEBYTECODE": "1"}


def sh(cmd, cwd, env, timeout):
    try:
        p = subprocess.run(cmd, cwd=cwd, env=env, capture_output=True, text=True, timeout=timeout)
        return p.returncode, p.stdout, p.stderr
    except subprocess.TimeoutExpired:
        return 124, "", "timeout"


BASE_FILES: dict = {}      # repo-relative path -> text of the base the mutants are made from, where it differs from /repo


def make_copy(k):
    d = os.path.join(WORK, f"w{k}")
    shutil.rmtree(d, ignore_errors=True)
    os.makedirs(d)
    subprocess.run(f"git -C /repo archive HEAD | tar -x -C {d}", shell=True, check=True)
    for rel, text in BASE_FILES.items():
        open(os.path.join(d, rel), "w").write(text)
    return d


def base_text(rel):
    return BASE_FILES[rel] if rel in BASE_FILES else open(os.path.join("/repo", rel)).read()


def static_verdict(rel, text):
    from tsa.model import Repo
    from tsa.check import Ctx, run_rules
    from tsa.rules import REGISTRY
    from tsa.props import PROPERTIES as PROPS
    ctx = Ctx(Repo("/repo", {**BASE_FILES, rel: text}))
    res = run_rules(ctx, sorted(REGISTRY))
    fired = sorted({r.rule for r in res if r.findings})
    errs = sorted({r.rule for r in res if r.error})
    msgs = [f"{f.rule}:{f.function}:{f.message[:140]}" for r in res for f in r.findings][:6]
    props_v, props_e = [], []
    for pid, spec in PROPS.items():
        rules = set(spec["rules"])
        if rules & set(fired):
            props_v.append(pid)
        elif rules & set(errs):
            props_e.append(pid)
    return {"fired": fired, "undecided": errs, "props_violation": props_v, "props_undecided": props_e, "messages": msgs}


def work(args):
    m, k, skip_tests, clean = args
    d = os.path.join(WORK, f"w{k}")
    path = os.path.join(d, m["file"])
    orig = base_text(m["file"])
    mutated = apply(orig, m)
    out = dict(m)
    env = dict(os.environ, PYTHONPATH=d, **ENVK)
    try:
        open(path, "w").write(mutated)
        if not skip_tests:
            t = time.time()
            rc, so, se = sh(["/venv/bin/python", "-m", "pytest", "-q", "-x", "-p", "no:cacheprovider", "--timeout=120"], d, env, 600)
            out["tests_rc"] = rc
            out["tests_s"] = round(time.time() - t, 1)
            out["tests_tail"] = (so.strip().splitlines() or [""])[-1][:160]
            if rc != 0:
                out["survives"] = False
                return out
        out["survives"] = True
        rc, so, se = sh(["/venv/bin/python", "/verif/tools/mut_oracle.py", d], d, env, 600)
        if rc != 0:
            out["oracle"] = "crash: " + se.strip().splitlines()[-1][:200] if se.strip() else "crash"
            out["differs"] = ["<import or oracle crash>"]
        else:
            o = json.loads(so)
            out["differs"] = sorted(k_ for k_ in set(o) | set(clean) if o.get(k_) != clean.get(k_))
            # what kind of difference: only exception types / only on inputs the clean tree rejects
            kinds = set()
            for k_ in out["differs"]:
                a, b = clean.get(k_), o.get(k_)
                if isinstance(a, str) and isinstance(b, str):
                    kinds.add("other-exception")
                elif isinstance(a, str):
                    kinds.add("accepts-what-was-rejected")
                elif isinstance(b, str):
                    kinds.add("fails-on-valid:" + b[:40])
                else:
                    kinds.add("result:" + ",".join(sorted(x for x in a if a.get(x) != b.get(x)))[:80] if isinstance(a, dict) else "result")
            out["diff_kinds"] = sorted(kinds)
        out["static"] = static_verdict(m["file"], mutated)
    except Exception as e:
        out["error"] = f"{type(e).__name__}: {e}"
    finally:
        open(path, "w").write(orig)
    return out


def worker(q_in, q_out, k, skip_tests, clean):
    while True:
        m = q_in.get()
        if m is None:
            break
        q_out.put(work((m, k, skip_tests, clean)))


def main():
    a = sys.argv
    mutants = [json.loads(l) for l in open(a[a.index("--mutants") + 1])]
    outp = a[a.index("--out") + 1]
    only = set(a[a.index("--only") + 1].split(",")) if "--only" in a else None
    skip_tests = "--skip-tests" in a
    done = set()
    if os.path.exists(outp):
        done = {json.loads(l)["id"] for l in open(outp)}
    todo = [m for m in mutants if m["id"] not in done and (only is None or m["id"] in only)]
    n = int(a[a.index("--jobs") + 1]) if "--jobs" in a else 16
    if "--base" in a:
        # the mutants were made from a refactored tree: a fixture directory of /verif/refactors (files/<rel>)
        fx = a[a.index("--base") + 1]
        for dirpath, _dn, fns in os.walk(os.path.join(fx, "files")):
            for fn_ in fns:
                full = os.path.join(dirpath, fn_)
                BASE_FILES[os.path.relpath(full, os.path.join(fx, "files"))] = open(full).read()
    for k in range(n):
        make_copy(k)
    d0 = os.path.join(WORK, "w0")
    env = dict(os.environ, PYTHONPATH=d0, **ENVK)
    rc, so, se = sh(["/venv/bin/python", "/verif/tools/mut_oracle.py", d0], d0, env, 600)
    clean = json.loads(so)
    q_in, q_out = mp.Queue(), mp.Queue()
    procs = [mp.Process(target=worker, args=(q_in, q_out, k, skip_tests, clean)) for k in range(n)]
    for p in procs:
        p.start()
    for m in todo:
        q_in.put(m)
    for _ in procs:
        q_in.put(None)
    t0 = time.time()
    with open(outp, "a") as f:
        for i in range(len(todo)):
            r = q_out.get()
            f.write(json.dumps(r) + "\n")
            f.flush()
            if (i + 1) % 25 == 0:
                print(f"{i + 1}/{len(todo)}  {time.time() - t0:.0f}s", flush=True)
    for p in procs:
        p.join()
    for k in range(n):
        shutil.rmtree(os.path.join(WORK, f"w{k}"), ignore_errors=True)
    print("done", len(todo))


if __name__ == "__main__":
    main()
