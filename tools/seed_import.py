#!/venv/bin/python
"""Import confirmed mutants into /verif/seeded/<id>/ and record which checks catch them (patch applied to /repo, checks run, patch undone)."""
import json, os, re, shutil, subprocess, sys
sys.path.insert(0, "/verif")
val = {}
for l in open("/tmp/seedval.jsonl"):
    try:
        r = json.loads(l); val[r["dir"]] = r
    except Exception:
        pass
rows = []
for d in sorted(val):
    r = val[d]
    if not r.get("confirmed"):
        continue
    prop = re.search(r"_(C\d+)/", d).group(1); m = ("r2" if "/m2_" in d else "") + os.path.basename(d)
    notes = open(os.path.join(d, "notes.md")).read() if os.path.exists(os.path.join(d, "notes.md")) else ""
    sid = f"{prop}-{m}"
    dst = f"/verif/seeded/{sid}"
    os.makedirs(dst, exist_ok=True)
    for f in ("patch.diff", "demo.py", "notes.md"):
        if os.path.exists(os.path.join(d, f)):
            shutil.copy(os.path.join(d, f), os.path.join(dst, f))
    assert subprocess.run(["git", "-C", "/repo", "status", "--short"], capture_output=True, text=True).stdout.strip() == "", "/repo not clean"
    p = subprocess.run(["/verif/tools/seedcheck.py", os.path.join(dst, "patch.diff"), "--in-repo", "--json"], capture_output=True, text=True, cwd="/verif")
    res = json.loads(p.stdout.strip().splitlines()[-1])
    assert subprocess.run(["git", "-C", "/repo", "status", "--short"], capture_output=True, text=True).stdout.strip() == "", "/repo not restored"
    detected = sorted(k for k, v in res.items() if v["exit"] == 1)
    errors = sorted(k for k, v in res.items() if v["exit"] == 2)
    rules = sorted({x for v in res.values() for x in v["rules"]})
    meta = {
        "id": sid, "breaks_property": prop, "origin": "independent sub-agent given only the property text and a scratch worktree",
        "files_touched": r.get("files"),
        "needs_to_manifest": notes.strip()[:1500],
        "confirmed_by_me": {"command": "tools/seed_validate.py (scratch worktree of /repo HEAD)", "test_suite_with_patch": r.get("tests_tail"),
                            "demo_exit_clean": r.get("demo_clean_exit"), "demo_exit_patched": r.get("demo_patched_exit")},
        "checks_run": "git -C /repo apply patch.diff; /venv/bin/python -m tsa.check <C01..C16> (quick); git -C /repo checkout -- .",
        "detected_by_properties": detected, "own_property_detects": prop in detected, "analysis_errors": errors, "rules_that_fired": rules,
        "per_property": {k: v for k, v in res.items() if v["exit"]},
    }
    json.dump(meta, open(os.path.join(dst, "meta.json"), "w"), indent=1)
    rows.append((sid, prop in detected, detected, rules, errors))
    print(sid, "OWN" if prop in detected else "other" if detected else "MISSED", detected, rules, "errors:", errors)
