#!/venv/bin/python
"""Run single rules and print their instances and findings (development aid).
usage: rulerun.py [--fixture <name under /verif/refactors>] [--edit <rel file> <old text> <new text>] RULE [RULE ...]
Without options the rules run on /repo's working tree; --fixture lays a refactoring fixture over it in memory, --edit one
textual replacement (escapes like \\n are interpreted)."""
import os
import sys
sys.path.insert(0, "/verif")
from tsa.check import Ctx, run_rules
from tsa.model import Repo


def main():
    a = sys.argv[1:]
    ov = {}
    if a[:1] == ["--fixture"]:
        base = f"/verif/refactors/{a[1]}/files"
        for d, _, fs in os.walk(base):
            for f in fs:
                p = os.path.join(d, f)
                ov[os.path.relpath(p, base)] = open(p).read()
        a = a[2:]
    elif a[:1] == ["--edit"]:
        rel, old, new = a[1], a[2].encode().decode("unicode_escape"), a[3].encode().decode("unicode_escape")
        t = open(os.path.join("/repo", rel)).read()
        assert old in t, "text to replace not found"
        ov[rel] = t.replace(old, new, 1)
        a = a[4:]
    ctx = Ctx(Repo(os.environ.get("TUCAN_REPO", "/repo"), ov))
    for rid in a:
        r = run_rules(ctx, [rid])[0]
        print(rid, "error:", r.error, "counts:", getattr(r, "counts", None))
        for i in r.instances:
            print("  ", i.get("verdict"), (i.get("construct") or "")[:90], "|", (i.get("detail") or "")[:200])
        for f in r.findings:
            print("   FINDING", f.message[:500])


main()
