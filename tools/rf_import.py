#!/venv/bin/python
"""Import behaviour-preserving refactorings (patch.diff + notes.md) into /verif/refactors/<name>/ together with the
post-patch text of every file they touch and the digest of the pre-patch text, so that the self-validation can lay
them over the current tree in memory (only when the current file still has that digest).
usage: rf_import.py <dir containing r*/patch.diff> ..."""
import glob, hashlib, json, os, shutil, subprocess, sys, tempfile

def main():
    for d in sys.argv[1:]:
        group = os.path.basename(d.rstrip("/")).replace("rfo_", "")
        for pd in sorted(glob.glob(os.path.join(d, "[re]*", "patch.diff"))):
            k = os.path.basename(os.path.dirname(pd))
            name = f"{group}-{k}"
            out = os.path.join("/verif/refactors", name)
            shutil.rmtree(out, ignore_errors=True)
            os.makedirs(os.path.join(out, "files"))
            shutil.copy(pd, os.path.join(out, "patch.diff"))
            notes = os.path.join(os.path.dirname(pd), "notes.md")
            if os.path.exists(notes):
                shutil.copy(notes, os.path.join(out, "notes.md"))
            wt = tempfile.mkdtemp(prefix="rfimp_", dir="/tmp"); os.rmdir(wt)
            subprocess.run(["git", "-C", "/repo", "worktree", "add", "-q", "--detach", wt, "HEAD"], check=True)
            try:
                subprocess.run(["git", "-C", wt, "apply", pd], check=True)
                changed = subprocess.run(["git", "-C", wt, "status", "--porcelain"], capture_output=True, text=True).stdout.split("\n")
                files = {}
                for line in changed:
                    if not line.strip():
                        continue
                    rel = line[3:].strip()
                    if not rel.endswith(".py"):
                        continue
                    base = subprocess.run(["git", "-C", "/repo", "show", f"HEAD:{rel}"], capture_output=True, text=True)
                    files[rel] = hashlib.sha256(base.stdout.encode()).hexdigest() if base.returncode == 0 else None
                    dst = os.path.join(out, "files", rel)
                    os.makedirs(os.path.dirname(dst), exist_ok=True)
                    shutil.copy(os.path.join(wt, rel), dst)
                json.dump({"name": name, "kind": "behaviour-preserving refactoring", "base_commit": subprocess.run(["git", "-C", "/repo", "rev-parse", "HEAD"], capture_output=True, text=True).stdout.strip(),
                           "base_sha256": files}, open(os.path.join(out, "meta.json"), "w"), indent=1)
            finally:
                subprocess.run(["git", "-C", "/repo", "worktree", "remove", "--force", wt], check=True)
            print("imported", name, sorted(files))

main()
