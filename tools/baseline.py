#!/venv/bin/python
"""run the repository's test-suite and compare with the stable baseline of /root/.vp/BASELINE.json"""
import json, subprocess, sys, tempfile, os, xml.etree.ElementTree as ET
base = json.load(open("/root/.vp/BASELINE.json"))
stable = set(base["stable_pass"])
with tempfile.TemporaryDirectory() as d:
    x = os.path.join(d, "j.xml")
    env = dict(os.environ); env.pop("TUCAN_VERIF", None)
    subprocess.run(["/venv/bin/python", "-m", "pytest", "-q", "-p", "no:cacheprovider", "--timeout=900", "--continue-on-collection-errors", f"--junitxml={x}"],
                   cwd="/repo", env=env, stdout=subprocess.DEVNULL, stderr=subprocess.DEVNULL)
    passed, failed = set(), set()
    for tc in ET.parse(x).getroot().iter("testcase"):
        name = f"{tc.get('classname')}::{tc.get('name')}"
        bad = any(c.tag in ("failure", "error") for c in tc)
        skipped = any(c.tag == "skipped" for c in tc)
        if bad: failed.add(name)
        elif not skipped: passed.add(name)
missing = sorted(stable - passed)
print(f"stable baseline {len(stable)}; passed now {len(passed)}; failed now {len(failed)}; stable tests not passing: {len(missing)}")
for m in missing[:20]: print("  ", m)
sys.exit(1 if missing else 0)
