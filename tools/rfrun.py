#!/venv/bin/python
"""dev helper: lay every imported refactoring (/verif/refactors/*/files) over /repo in memory and run all rules.
A refactoring keeps behaviour, so no rule may report a finding; rules that cannot decide (analysis errors) are listed."""
import glob, hashlib, json, os, sys, time
sys.path.insert(0, "/verif")
from concurrent.futures import ProcessPoolExecutor
from tsa.model import Repo
from tsa.check import Ctx, run_rules
from tsa.rules import REGISTRY

ROOT = os.environ.get("TUCAN_REPO", "/repo")

def overlay_of(d):
    meta = json.load(open(os.path.join(d, "meta.json")))
    ov = {}
    for rel, sha in meta["base_sha256"].items():
        cur = os.path.join(ROOT, rel)
        if sha is not None:
            if not os.path.exists(cur) or hashlib.sha256(open(cur, "rb").read()).hexdigest() != sha:
                return None
        ov[rel] = open(os.path.join(d, "files", rel)).read()
    return ov

def one(d):
    name = os.path.basename(d.rstrip("/"))
    ov = overlay_of(d)
    if ov is None:
        return name, "SKIP(base changed)", [], []
    ctx = Ctx(Repo(ROOT, ov))
    res = run_rules(ctx, sorted(REGISTRY))
    fired = sorted({r.rule for r in res if r.findings})
    errs = sorted({r.rule for r in res if r.error})
    det = [f"{f.rule}:{f.function}:{f.message[:100]}" for r in res for f in r.findings][:4]
    edet = [f"{r.rule}: {r.error[:160]}" for r in res if r.error]
    return name, fired, errs, det + (edet if "-v" in sys.argv else [])

if __name__ == "__main__":
    dirs = [d for d in sorted(glob.glob("/verif/refactors/*/")) if not [a for a in sys.argv[1:] if not a.startswith("-")] or any(a in d for a in sys.argv[1:] if not a.startswith("-"))]
    t = time.time()
    nviol = nerr = 0
    with ProcessPoolExecutor(16) as ex:
        for name, fired, errs, det in ex.map(one, dirs):
            if isinstance(fired, str):
                print(f"{name:14s} {fired}"); continue
            nviol += bool(fired); nerr += bool(errs and not fired)
            print(f"{name:14s} {'VIOLATION ' + str(fired) if fired else 'no finding'}  undecided={errs}")
            for x in det: print("        ", x)
    print(f"{len(dirs)} refactorings in {time.time()-t:.1f}s: {nviol} with findings, {nerr} undecided only")
