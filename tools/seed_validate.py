#!/venv/bin/python
"""Confirm a sub-agent's mutant myself, in a scratch worktree: the patch applies, the test-suite still passes,
the demo fails with the patch and passes without.  Prints one JSON line per mutant."""
import json, os, subprocess, sys, tempfile
from concurrent.futures import ThreadPoolExecutor

def sh(cmd, cwd=None, env=None, timeout=1200):
    p = subprocess.run(cmd, cwd=cwd, env=env, capture_output=True, text=True, timeout=timeout)
    return p.returncode, (p.stdout + p.stderr)[-1500:]

def validate(d):
    patch, demo = os.path.join(d, "patch.diff"), os.path.join(d, "demo.py")
    wt = tempfile.mkdtemp(prefix="seedval_", dir="/tmp"); os.rmdir(wt)
    out = {"dir": d}
    try:
        sh(["git", "-C", "/repo", "worktree", "add", "-q", "--detach", wt, "HEAD"])
        env = dict(os.environ, PYTHONPATH=wt, PYTHONDONTWRITEBYTECODE="1")
        rc0, o0 = sh(["/venv/bin/python", demo], cwd=wt, env=env)
        out["demo_clean_exit"] = rc0
        rc, o = sh(["git", "-C", wt, "apply", patch])
        out["applies"] = rc == 0
        if rc: out["apply_err"] = o; return out
        out["files"] = sh(["git", "-C", wt, "diff", "--stat"])[1].strip().splitlines()[:-1]
        rct, ot = sh(["/venv/bin/python", "-m", "pytest", "-q", "-p", "no:cacheprovider", "--timeout=900", "-x"], cwd=wt, env=env)
        out["tests_exit"] = rct; out["tests_tail"] = ot.strip().splitlines()[-1] if ot.strip() else ""
        rc1, o1 = sh(["/venv/bin/python", demo], cwd=wt, env=env)
        out["demo_patched_exit"] = rc1; out["demo_patched_tail"] = o1.strip().splitlines()[-3:]
        out["confirmed"] = bool(rc0 == 0 and rct == 0 and rc1 != 0)
    finally:
        sh(["git", "-C", "/repo", "worktree", "remove", "--force", wt])
    return out

if __name__ == "__main__":
    dirs = sys.argv[1:]
    with ThreadPoolExecutor(8) as ex:
        for r in ex.map(validate, dirs):
            print(json.dumps(r))
