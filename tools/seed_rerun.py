#!/venv/bin/python
"""Re-run every quick check against every kept seeded change (patch applied to /repo, checks run, patch undone) and refresh meta.json."""
import glob, json, os, subprocess, sys
rows = []
for d in sorted(glob.glob("/verif/seeded/*/")):
    meta_p = os.path.join(d, "meta.json")
    meta = json.load(open(meta_p))
    assert subprocess.run(["git", "-C", "/repo", "status", "--short"], capture_output=True, text=True).stdout.strip() == "", "/repo not clean"
    p = subprocess.run(["/verif/tools/seedcheck.py", os.path.join(d, "patch.diff"), "--json"] + (["--in-repo"] if "--in-repo" in sys.argv else []), capture_output=True, text=True, cwd="/verif")
    res = json.loads(p.stdout.strip().splitlines()[-1])
    assert subprocess.run(["git", "-C", "/repo", "status", "--short"], capture_output=True, text=True).stdout.strip() == "", "/repo not restored"
    prop = meta["breaks_property"]
    meta["detected_by_properties"] = sorted(k for k, v in res.items() if v["exit"] == 1)
    meta["own_property_detects"] = prop in meta["detected_by_properties"]
    meta["analysis_errors"] = sorted(k for k, v in res.items() if v["exit"] == 2)
    meta["rules_that_fired"] = sorted({x for v in res.values() for x in v["rules"]})
    meta["per_property"] = {k: v for k, v in res.items() if v["exit"]}
    json.dump(meta, open(meta_p, "w"), indent=1)
    rows.append((meta["id"], meta["own_property_detects"], meta["detected_by_properties"], meta["rules_that_fired"]))
    print(meta["id"], "OWN" if meta["own_property_detects"] else ("other" if meta["detected_by_properties"] else "MISSED"), meta["rules_that_fired"])
print(sum(1 for r in rows if r[1]), "of", len(rows), "reported by the property's own check")
